"""C18 -- the pipeline never fails internally and always terminates.

What Coq carries (coq/IR/Properties_C18.v): Generator.get_generators as a pure function and
the proofs that at depth >= max_depth (or with only_leaves) only leaf generators are offered,
that the same-depth re-dispatch of gen_variable cannot loop through gen_variable again, that
the candidate list is never empty, that every composite generator increments the depth, and
that every run of the abstract recursion scheme built from these (gen_new's bottom cut at
2 * max_depth included) has nesting <= (A + 1) * (2 * max_depth + 1), A the deepest array nesting of a type (array expressions do not increment the depth).
Ties: (a) the real get_generators is driven directly (a Generator whose gen_* methods return
their own tag) against the model; (b) traces: generated programs must satisfy the proved
nesting bound (composite nodes on a root-to-leaf path <= (A + 1) * (2 * max_depth + 1) + 1, A = deepest array nesting of a type),
and generation, type erasure, type overwriting and translation of every intermediate program
must not raise (counted per stage).  Exception freedom of ~10 kLoC is NOT proved: part (b) is
supporting exploration, labelled as such; termination of the same-depth loop holds with
probability 1 only.

The recursion scheme TABLE (coq/IR/Properties_C18_scheme.v): harness/gen2coq.py translates the source of
generator.py (Python `ast`, fail-closed) into coq/Generated/GenScheme.v on every run: per method the depth
increment, the call sites of other generators with the offset of self.depth in effect, how only_leaves /
gen_bottom are bound, and the three branches of get_generators as dispatch sites of generate_expr.  Theorems
over ANY table passing the decidable `scheme_ok` (ids, summary columns, only listed methods leak, every cycle of
the (generator, only_leaves) graph passes an increment or a listed edge): the number of generator frames of any
run is <= scheme_bound * (1 + listed edges used + depth climbed); `generated_scheme_ok` is the obligation on the
source (vm_compute on the regenerated table), plus the ties to the get_generators model (same increments, every
offered generator offered in the same branch).  The depth counter itself is NOT bounded by the table (refuted,
and the cycles that are permitted at every depth are listed in the evidence).  Tie (c): every traced program is
generated under a Tracer that wraps the table's methods from outside and compares every dynamic call edge, depth
offset, only_leaves binding, dispatch branch and depth restoration with the table (`scheme-table-differs`), and
measures the theorem's inequality on every frame (`call-depth`).  A translator failure is `scheme-extract`.
"""
import os
import random
import time
import tempfile
import traceback

import common as C
import tymodel as T
import ir2coq
import progs
import gen2coq

GENS = ["GNew", "GConst", "GArray", "GLogical", "GEquality", "GComparison", "GFieldAccess", "GConditional",
        "GIs", "GFunCall", "GVariable", "GAssignment"]
COUNTED = {1, 4, 6, 8, 15, 17, 18, 19, 20, 21, 22, 23, 24, 25, 27, 28}


def drive_get_generators(rng, n):
    from src.generators.generator import Generator
    from src.generators.config import cfg
    from src.ir import ast
    cases = []
    saved = (cfg.limits.max_depth, cfg.limits.max_var_decls)
    try:
        for lang in T.LANGS:
            g = Generator(language=lang)
            f = g.bt_factory
            tag = lambda t: (lambda *a, **k: t)        # noqa: E731
            g.gen_new = tag("GNew")
            g.gen_variable = tag("GVariable")
            g.gen_func_call = tag("GFunCall")
            g.gen_field_access = tag("GFieldAccess")
            g.gen_conditional = tag("GConditional")
            g.gen_is_expr = tag("GIs")
            g.gen_logical_expr = tag("GLogical")
            g.gen_equality_expr = tag("GEquality")
            g.gen_comparison_expr = tag("GComparison")
            g.gen_array_expr = tag("GArray")
            g.gen_assignment = tag("GAssignment")
            from src.ir import types as tp
            cls_t = tp.SimpleClassifier("Foo")
            kinds = [("void", f.get_void_type(), True, False, "CNone"),
                     ("bool", f.get_boolean_type(), False, True, "CScalar"),
                     ("int", f.get_integer_type(), False, False, "CScalar"),
                     ("string", f.get_string_type(), False, False, "CScalar"),
                     ("double", f.get_double_type(), False, False, "CScalar"),
                     ("array", f.get_array_type().new([f.get_integer_type()]), False, False, "CArray"),
                     ("class", cls_t, False, False, "CNone")]
            for _ in range(n // 4):
                name, et, is_void, is_bool, ck = rng.choice(kinds)
                md = rng.choice([1, 2, 3, 6, 8])
                depth = rng.randint(1, 2 * md + 2)
                ol, ev = rng.random() < 0.3, rng.random() < 0.4
                mv = rng.choice([0, 1, 3])
                vars_ = rng.randint(0, 4)
                cfg.limits.max_depth, cfg.limits.max_var_decls = md, mv
                g.depth = depth
                g._vars_in_context[g.namespace] = vars_
                res = g.get_generators(et, ol, True, ev)
                tags = []
                for fn in res:
                    r = fn(et)
                    if isinstance(r, str):
                        tags.append(r)
                    elif isinstance(r, ast.Constant):
                        tags.append("GConst")
                    else:
                        tags.append("?" + type(r).__name__)
                cases.append((depth, md, ol, ev, is_void, is_bool, ck, vars_, mv, tags, lang, name))
    finally:
        cfg.limits.max_depth, cfg.limits.max_var_decls = saved
    return cases


class _Budget(Exception):
    pass


def drive_schedule(rng, n):
    """the real hephaestus.process_cp_transformations over a real ProgramProcessor whose only
    transformation is a scripted fake (is_transformed per call); keep_all=True makes the saved
    directories reveal which schedule entries produced a program"""
    import argparse
    import hephaestus as H
    from src.modules.processor import ProgramProcessor
    import src.utils as U
    cases, hangs = [], []
    saved = (ProgramProcessor.CP_TRANSFORMATIONS, H.save_program, U.translate_program, H.cli_args.keep_all)

    class Tr:
        def get_filename(self):
            return "x.kt"
    try:
        for _ in range(n):
            slen = rng.choice([0, 1, 1, 2, 3, 4, 6])
            start = 0 if rng.random() < 0.8 else rng.randint(0, slen)
            script = [rng.random() < rng.choice([0.1, 0.5, 0.9]) for _ in range(slen + 2)]
            state = dict(calls=0, script=list(script), saved=[])

            class Fake:
                CORRECTNESS_PRESERVING = True

                def __init__(self, program, language, logger=None, options=None):
                    self.program = program
                    self.is_transformed = False

                @classmethod
                def get_name(cls):
                    return "TypeErasure"

                def transform(self, st=state, lim=4 * slen + 10):
                    st["calls"] += 1
                    if st["calls"] > lim:
                        raise _Budget()
                    self.is_transformed = st["script"].pop(0) if st["script"] else False

                def result(self):
                    return self.program

                def preserve_correctness(self):
                    return True
            ProgramProcessor.CP_TRANSFORMATIONS = {"TypeErasure": Fake}
            args = argparse.Namespace(transformation_types=["TypeErasure"], transformations=slen, transformation_schedule=None,
                                      log=False, debug=False, language="kotlin", options={"TypeErasure": {}}, name="v",
                                      test_directory="/nonexistent", replay=None)
            proc = ProgramProcessor(1, args)
            proc.current_transformation = start

            def save(program, text, path, st=state):
                st["saved"].append(path)
            H.save_program = save
            U.translate_program = lambda tr, prog: "text"
            H.cli_args.keep_all = True
            try:
                H.process_cp_transformations(1, "/nonexistent", Tr(), proc, object(), "pkg")
            except _Budget:
                hangs.append((start, slen, script))
                continue
            import re as _re
            applied = []
            for pth in state["saved"]:
                m = _re.search(r"transformations[/\\]iter_\d+[/\\](\d+)", pth)
                if m:
                    applied.append(int(m.group(1)))
            # get_transformations_dir(pid, current_transformation - 1): 0-based index of the entry -> 1-based number
            applied = sorted(set(a + 1 for a in applied))
            cases.append((start, slen, script, state["calls"], proc.current_transformation, applied))
    finally:
        ProgramProcessor.CP_TRANSFORMATIONS, H.save_program, U.translate_program, H.cli_args.keep_all = saved
    return cases, hangs


def erasure_program(lang, k, rng):
    """fun test() { val v0: A<B> = A<B>(); ... }  -- every declared type and every explicit type-argument list is
    omittable alone but not together, so all large combinations are infeasible"""
    from src.ir import ast, types as tp, context as ctx
    from src.ir import BUILTIN_FACTORIES
    f = BUILTIN_FACTORIES[lang]
    context = ctx.Context()
    G = ast.GLOBAL_NAMESPACE
    b = ast.ClassDeclaration("Bb", [], ast.ClassDeclaration.REGULAR)
    a = ast.ClassDeclaration("Aa", [], ast.ClassDeclaration.REGULAR, type_parameters=[tp.TypeParameter("T")])
    context.add_class(G, b.name, b)
    context.add_class(G, a.name, a)
    stmts = []
    for i in range(k):
        if rng.random() < 0.75:
            t1, t2 = a.get_type().new([b.get_type()]), a.get_type().new([b.get_type()])
        else:
            t1, t2 = b.get_type(), b.get_type()
        stmts.append(ast.VariableDeclaration("v%d" % i, ast.New(t2, []), var_type=t1))
    func = ast.FunctionDeclaration("test", [], f.get_void_type(), ast.Block(stmts), ast.FunctionDeclaration.FUNCTION)
    context.add_func(G, func.name, func)
    for d in stmts:
        context.add_var(G + (func.name,), d.name, d)
    return ast.Program(context, lang)


def drive_budget(rng, programs):
    """TypeErasure.visit_func_decl with tda.is_combination_feasible wrapped from outside: per function the number
    of feasibility checks of the search phase, the index of the applied combination, the budget"""
    from src.transformations.type_erasure import TypeErasure
    from src.analysis import type_dependency_analysis as tda
    cases = []
    log = []
    orig_feasible = tda.is_combination_feasible
    orig_visit = TypeErasure.visit_func_decl

    def feasible(graph, combination):
        r = orig_feasible(graph, combination)
        log.append((id(graph), len(combination), bool(r)))
        return r

    def visit(self, node):
        log.append(("begin", self.max_combinations))
        try:
            return orig_visit(self, node)
        finally:
            log.append(("end",))
    tda.is_combination_feasible = feasible
    TypeErasure.visit_func_decl = visit
    try:
        for lang, p, budget in programs:
            del log[:]
            te = TypeErasure(p, lang, None, {"timeout": 600, "max_combinations": budget})
            te.transform()
            cur = None
            for ev in list(log):
                if ev[0] == "begin":
                    cur = dict(budget=ev[1], calls=[])
                elif ev[0] == "end":
                    if cur is not None and cur["calls"]:
                        g0 = cur["calls"][0][0]
                        singles = [c for c in cur["calls"] if c[0] == g0]
                        nfeas = sum(1 for c in singles if c[2])
                        phase2 = cur["calls"][len(singles):]
                        results = [c[2] for c in phase2]
                        total = 2 ** nfeas - 1 if nfeas < 20 else 10 ** 6
                        applied1 = (len(results) if results and results[-1] else 0)
                        pad = max(0, min(total, len(results) + 2) - len(results)) if not (results and results[-1]) else 0
                        cases.append((cur["budget"], results + [False] * pad, len(results), applied1, lang, nfeas, total))
                    cur = None
                elif cur is not None:
                    cur["calls"].append(ev)
    finally:
        tda.is_combination_feasible = orig_feasible
        TypeErasure.visit_func_decl = orig_visit
    return cases


def drive_cut(rng, n):
    """the real gen_new on a class with fields of its own type, of another class and of a primitive/builtin type;
    generate_expr is wrapped to record the gen_bottom flag it is handed"""
    from src.generators.generator import Generator
    from src.generators.config import cfg
    from src.ir import ast
    cases = []
    saved = cfg.limits.max_depth
    try:
        for lang in T.LANGS:
            for _ in range(n // 4):
                g = Generator(language=lang)
                f = g.bt_factory
                ns = ast.GLOBAL_NAMESPACE
                g.namespace = ns
                from src.ir.context import Context
                g.context = Context()
                bar = ast.ClassDeclaration("Bar", [], ast.ClassDeclaration.REGULAR)
                foo = ast.ClassDeclaration("Foo", [], ast.ClassDeclaration.REGULAR)
                ftypes = [("same", foo.get_type()), ("other", bar.get_type()), ("int", f.get_integer_type()),
                          ("string", f.get_string_type())]
                rng.shuffle(ftypes)
                ftypes = ftypes[:rng.randint(1, 4)]
                foo.fields = [ast.FieldDeclaration("f%d" % i, t) for i, (_, t) in enumerate(ftypes)]
                bar.fields = [ast.FieldDeclaration("g", foo.get_type())]
                g.context.add_class(ns, bar.name, bar)
                g.context.add_class(ns, foo.name, foo)
                md = rng.choice([1, 2, 3, 6])
                d = rng.randint(0, 2 * md + 3)
                ol = rng.random() < 0.5
                cfg.limits.max_depth = md
                g.depth = d
                seen = []

                def fake(expr_type, only_leaves=False, subtype=True, exclude_var=False, gen_bottom=False, sam_coercion=False,
                         seen=seen, g=g):
                    seen.append((expr_type, g.depth, bool(gen_bottom), bool(only_leaves)))
                    return ast.BottomConstant(expr_type)
                g.generate_expr = fake
                try:
                    g.gen_new(foo.get_type(), only_leaves=ol, subtype=False)
                except Exception as e:      # noqa: BLE001
                    cases.append(("error", lang, "%s: %s" % (type(e).__name__, e)))
                    continue
                for (et, depth, gb, ol2) in seen:
                    cases.append((et.name == "Foo", depth, md, bool(et.is_primitive()), ol, gb, lang))
    finally:
        cfg.limits.max_depth = saved
    return cases


def counted_depth(n):
    return (1 if n[0] in COUNTED else 0) + max([counted_depth(k) for k in n[5]] + [0])


def array_nesting_ty(t):
    if t is None or t == ("none",):
        return 0
    if t[0] == "A":
        inner = max([array_nesting_ty(a) for a in t[2]] + [0])
        return inner + (1 if t[1] in (T.ARRAY_CID,) or t[1] >= T.EXTRA_CID else 0)
    if t[0] == "W":
        return array_nesting_ty(t[2])
    if t[0] == "V":
        return array_nesting_ty(t[3])
    return 0


def array_nesting(n):
    return max([array_nesting_ty(t) for t in n[4]] + [array_nesting(k) for k in n[5]] + [0])


def exc_shape(err, default="exception-cli"):
    """Names the one internal failure of the unchanged tree that is a recorded finding (known_findings.json); everything else
    keeps the general kind."""
    if "You have to implement has_type_variables()" in err and ("_gen_matching_class" in err or "generator.py:28" in err):
        return "nothing-typed-expression-requested"
    return default


def run(tier, seed, replay=None):
    rep = C.Report("C18", tier, seed, "proof")
    C.setup_repo_import(seed, ["hephaestus.py", "--iterations", "1", "--language", "kotlin"])
    import src.args  # noqa: F401
    from src.transformations.type_erasure import TypeErasure
    from src.transformations.type_overwriting import TypeOverwriting
    from src.translators.kotlin import KotlinTranslator
    from src.translators.java import JavaTranslator
    from src.translators.groovy import GroovyTranslator
    from src.translators.scala import ScalaTranslator
    from src import utils
    TR = {"kotlin": KotlinTranslator, "java": JavaTranslator, "groovy": GroovyTranslator, "scala": ScalaTranslator}
    rows = progs.config_table()
    # (s) the recursion scheme of generator.py, translated from its source on every run (fail-closed)
    scheme, scheme_err = None, None
    try:
        scheme = gen2coq.emit_generated()
    except gen2coq.Unsupported as e:
        scheme_err = "the translator does not know this shape: %s" % e
    except (SyntaxError, OSError, KeyError, IndexError, AttributeError, TypeError, ValueError) as e:
        scheme_err = "the translator failed: %s: %s" % (type(e).__name__, e)
    proof_ok = C.proof_part(rep, "IR/Properties_C18.v", ["IR/Depth.vo", "IR/DepthProofs.vo", "IR/Corr18.vo", "IR/Work.vo", "IR/WorkProofs.vo"],
                            ["IR"] + (["Generated"] if scheme is not None else []))
    scheme_proof_ok, scheme_bound, scheme_parts, cycle_checked = False, None, None, None
    if scheme is not None:
        pr2 = C.check_properties_file("IR/Properties_C18_scheme.v", ["IR/Scheme.vo", "Generated/GenScheme.vo", "IR/SchemeProofs.vo"])
        scheme_proof_ok = C.proof_part_extra(rep, pr2)
        proof_ok = proof_ok and scheme_proof_ok
        text3 = (C.CASE_HEADER + "From Coq Require Import List Arith Bool String.\nImport ListNotations.\n"
                 "From Heph Require Import IR.Depth IR.Scheme Generated.GenScheme.\n"
                 "Definition L := listed_in gen_table.\n"
                 "Eval vm_compute in [scheme_bound L gen_table].\n"
                 "Eval vm_compute in [ids_from 0 gen_table; callees_ok gen_table; sides_ok gen_table; leaks_ok leaky_names gen_table; "
                 "rank_ok L gen_table (compute_ranks L gen_table); scheme_ok L leaky_names gen_table; "
                 "cycle_ok gen_table L (fst example_cycle) (snd example_cycle)].\n")
        rc3, out3 = C.run_case_files([("c18_2", text3)], timeout=600)["c18_2"]
        if rc3 == 0:
            vals3 = C.parse_eval_outputs(out3)
            scheme_bound = C.parse_nat_list(vals3[-2])[0]
            bools = [x.strip() == "true" for x in vals3[-1].split(" : ")[0].strip()[1:-1].split(";")]
            scheme_parts = dict(zip(["ids", "callees", "summary_columns", "leaks", "ranks", "scheme_ok"], bools[:6]))
            cycle_checked = bools[6]
        C.clean_cases("c18_2")
    rng = random.Random(C.sub_seed(seed, "c18"))
    # (a) direct driving
    cases = drive_get_generators(rng, 1200 if tier == "quick" else 20000)
    items = []
    unknown_tags = []
    for c in cases:
        depth, md, ol, ev, iv, ib, ck, vars_, mv, tags, lang, name = c
        if any(t.startswith("?") for t in tags):
            unknown_tags.append(c)
            continue
        items.append("(%d, %d, %s, %s, %s, %s, %s, %d, %d, %s)" % (depth, md, C.cbool(ol), C.cbool(ev), C.cbool(iv), C.cbool(ib),
                                                                 ck, vars_, mv, C.clist(tags)))
    text = (C.CASE_HEADER + "From Coq Require Import List Arith Bool.\nImport ListNotations.\nFrom Heph Require Import IR.Depth IR.Corr18.\n"
            "Definition cases : list gcase := [\n%s\n].\nEval vm_compute in (gmismatches 0 cases).\n" % ";\n".join(items))
    C.clean_cases("c18")
    rc, out = C.run_case_files([("c18_0", text)], timeout=900)["c18_0"]
    mism = []
    if rc != 0:
        rep.violation("case-file", "case file did not evaluate: %s" % out[-500:], dict(broken="c18_0", log=out[-3000:]), no_input=True)
    else:
        mism = C.parse_nat_list(C.parse_eval_outputs(out)[-1])
    C.clean_cases("c18")
    # (a2) the other work counters: schedule loop, erasure search budget, gen_new cut
    nS, nG = (300, 240) if tier == "quick" else (5000, 4000)
    scases, hangs = drive_schedule(rng, nS)
    bprogs = []
    for lang in T.LANGS:
        for _ in range(6 if tier == "quick" else 60):
            bprogs.append((lang, erasure_program(lang, rng.randint(1, 6), rng), rng.choice([1, 2, 3, 5, 20, 100])))
        for s_ in range(2 if tier == "quick" else 20):
            try:
                progs.set_cfg(rows[0])
                bprogs.append((lang, progs.generate(lang, C.sub_seed(seed, "c18b", lang, s_) % (2 ** 31)), rng.choice([2, 10, 50])))
            except Exception:       # noqa: BLE001  (generation failures are part (b)'s subject)
                pass
    bcases = drive_budget(rng, bprogs)
    gcases_all = drive_cut(rng, nG)
    gerrors = [c for c in gcases_all if c[0] == "error"]
    gcases = [c for c in gcases_all if c[0] != "error"]
    text2 = (C.CASE_HEADER + "From Coq Require Import List Arith Bool.\nImport ListNotations.\nFrom Heph Require Import IR.Work.\n"
             "Definition sc : list scase := %s.\nDefinition bc : list bcase := %s.\nDefinition gc : list gcase3 := %s.\n"
             "Eval vm_compute in (mism scase_ok 0 sc).\nEval vm_compute in (mism bcase_ok 0 bc).\nEval vm_compute in (mism gcase3_ok 0 gc).\n"
             % (C.clist(scases, lambda c: "(%d, %d, %s, %d, %d, %s)" % (c[0], c[1], C.clist(c[2], C.cbool), c[3], c[4], C.clist(c[5])) if True else ""),
                C.clist(bcases, lambda c: "(%d, %s, %d, %d)" % (c[0], C.clist(c[1], C.cbool), c[2], c[3])),
                C.clist(gcases, lambda c: "(%s, %d, %d, %s, %s, %s)" % (C.cbool(c[0]), c[1], c[2], C.cbool(c[3]), C.cbool(c[4]), C.cbool(c[5])))))
    rc2, out2 = C.run_case_files([("c18_1", text2)], timeout=900)["c18_1"]
    smis = bmis = gmis = []
    if rc2 != 0:
        rep.violation("case-file", "case file did not evaluate: %s" % out2[-500:], dict(broken="c18_1", log=out2[-3000:]), no_input=True)
    else:
        vals = C.parse_eval_outputs(out2)
        smis, bmis, gmis = (C.parse_nat_list(v) for v in vals[-3:])
    C.clean_cases("c18")
    for h in hangs[:3]:
        rep.violation("schedule-nontermination", "process_cp_transformations did not finish within 4n+10 transformation calls: start=%d, "
                      "schedule length=%d, is_transformed script=%s" % h, dict(start=h[0], schedule_len=h[1], script=h[2], shape="schedule-hang"))
    for i in smis[:3]:
        c = scases[i]
        rep.violation("schedule", "transformation schedule: start=%d length=%d script=%s -> %d calls, counter %d, produced %s; the model "
                      "(one call per remaining entry) disagrees" % c, dict(case=list(c), shape="schedule",
                                                                         broken="correspondence IR.Work.cp_loop vs processor.py/hephaestus.py"))
    for i in bmis[:3]:
        c = bcases[i]
        rep.violation("erasure-budget", "TypeErasure.visit_func_decl (%s, %d feasible single nodes, %d combinations) with max_combinations=%d "
                      "made %d feasibility checks in the search and applied #%d; the model (at most budget+1 checks, first feasible) "
                      "disagrees" % (c[4], c[5], c[6], c[0], c[2], c[3]),
                      dict(case=[c[0], c[1], c[2], c[3]], lang=c[4], shape="erasure-budget",
                           broken="correspondence IR.Work.search vs type_erasure.py"))
    for i in gmis[:3]:
        c = gcases[i]
        rep.violation("new-cut", "gen_new (%s): field of %s type at depth %d with max_depth %d, only_leaves=%s was generated with "
                      "gen_bottom=%s; the model says %s" % (c[6], "its own" if c[0] else ("a primitive" if c[3] else "another class"),
                                                            c[1], c[2], c[4], c[5], not c[5]),
                      dict(case=list(c), shape="new-cut", broken="correspondence IR.Work.gen_bottom_rule vs generator.py gen_new"))
    for c in gerrors[:3]:
        rep.violation("new-cut-error", "driving gen_new raised: %s" % (c,), dict(case=list(c), broken="driver of gen_new"), no_input=True)
    # (b) traces
    langs = {l: T.Lang(l) for l in T.LANGS}
    nper = 5 if tier == "quick" else 200
    stage_fail = {"generate": 0, "erase": 0, "overwrite": 0, "translate": 0}
    failures = []
    nprog = 0
    worst = {}
    bound_viol = []
    t0 = time.time()
    if scheme is not None and not scheme_proof_ok:
        nper *= 2           # the obligation on the source broke: look harder for a program that shows it
    tracer = gen2coq.Tracer(scheme, scheme_bound) if scheme is not None else None
    if tracer is not None:
        try:
            tracer.__enter__()
        except gen2coq.Unsupported as e:
            scheme_err = str(e)
            tracer = None
    for lang in T.LANGS:
        for md in (3, 6):
            for s in range(nper):
                sd = C.sub_seed(seed, "c18prog", lang, md, s) % (2 ** 31)
                row = list(rows[rng.choice([0, 5, 10, 15])])
                row[4] = md
                progs.set_cfg(row)
                stage = "generate"
                if tracer is not None:
                    del tracer.stack[:]
                    tracer.label = dict(lang=lang, max_depth=md, seed=sd)
                try:
                    p = progs.generate(lang, sd)
                    nprog += 1
                    n = ir2coq.Ser(langs[lang], p).prog()
                    cd = counted_depth(n)
                    bound = (array_nesting(n) + 1) * (2 * md + 1) + 1      # nesting_bounded with A = array nesting; + 1: the statement itself
                    worst[(lang, md)] = max(worst.get((lang, md), 0), cd)
                    if cd > bound:
                        bound_viol.append((lang, md, sd, cd, bound))
                    stage = "translate"
                    utils.translate_program(TR[lang]("src.pkg", {"cast_numbers": False}), p)
                    stage = "erase"
                    te = TypeErasure(p, lang, None, {"timeout": 600})
                    te.transform()
                    p = te.result()
                    stage = "translate"
                    utils.translate_program(TR[lang]("src.pkg", {"cast_numbers": False}), p)
                    stage = "overwrite"
                    to = TypeOverwriting(p, lang, None, {"timeout": 600})
                    to.transform()
                    p = to.result()
                    stage = "translate"
                    utils.translate_program(TR[lang]("src.pkg", {"cast_numbers": False}), p)
                except Exception as e:      # noqa: BLE001
                    stage_fail[stage] += 1
                    tb = traceback.extract_tb(e.__traceback__)
                    failures.append(dict(lang=lang, max_depth=md, seed=sd, stage=stage, error="%s: %s" % (type(e).__name__, str(e)[:150]),
                                         where=["%s:%d" % (f.name, f.lineno) for f in tb[-4:]]))
    progs.set_cfg(rows[0])
    if tracer is not None:
        tracer.__exit__(None, None, None)
    t_tr = time.time() - t0
    # (b2) resources that must last a whole session: the identifier pool.  hephaestus resets it before every batch; after any
    # number of reset / draw cycles a reset must give the full pool again (the driver runs for hours in one process)
    pool_problems = []
    try:
        progs.generate_setup("kotlin", 1)
        full = len(utils.random.WORDS)
        init0 = len(utils.random.INITIAL_WORDS)
        for cyc in range(400):
            utils.random.reset_word_pool()
            if len(utils.random.WORDS) != full or len(utils.random.INITIAL_WORDS) != init0:
                pool_problems.append("after %d cycles of reset_word_pool + 60 draws the pool has %d words (initial words: %d), a fresh one has %d (%d)"
                                     % (cyc, len(utils.random.WORDS), len(utils.random.INITIAL_WORDS), full, init0))
                break
            for _ in range(60):
                utils.random.word()
    except Exception as e:      # noqa: BLE001
        pool_problems.append("the identifier pool failed after some reset / draw cycles: %s: %s" % (type(e).__name__, str(e)[:100]))
    for msg in pool_problems:
        rep.violation("word-pool", msg, dict(what=msg, shape="word-pool-exhausted"))
    rep.add(word_pool_cycles=400, word_pool_problems=len(pool_problems))
    # (c) command-line stream: sessions of the real driver code (hephaestus.gen_program per program, batches of 10 with
    # reset_word_pool, every option through src/args.py) in separate processes, long enough to exhaust per-process resources
    import subprocess as _sp
    import concurrent.futures as _cf
    import sys as _sys
    import json as _json
    if tier == "quick":
        plan = [("java", 125, ["--max-type-params", "1"]), ("kotlin", 60, ["--max-type-params", "2"]),
                ("groovy", 40, ["--max-type-params", "1"]), ("scala", 40, ["--max-type-params", "2"]),
                ("java", 60, ["--max-type-params", "2", "--max-depth", "4"]), ("kotlin", 40, ["--max-type-params", "1", "--max-depth", "3"]),
                ("groovy", 30, ["--max-type-params", "2", "--disable-use-site-variance"]),
                ("scala", 30, ["--max-type-params", "1", "--disable-bounded-type-parameters"])]
    else:
        plan = [(l, 150, ["--max-type-params", str(m)] + x) for l in T.LANGS for m in (1, 2, 5)
                for x in ([], ["--max-depth", "3"], ["--disable-parameterized-functions", "--disable-use-site-variance"])]
    env = dict(os.environ, PYTHONPATH=C.REPO + os.pathsep + os.path.join(C.VERIF, "harness"), PYTHONHASHSEED="0")

    def cli_once(lang, n, flags, sd):
        cmd = [_sys.executable, os.path.join(C.VERIF, "harness", "c18_cli.py"), lang, str(n), str(sd)] + flags
        try:
            pr = _sp.run(cmd, env=env, stdout=_sp.PIPE, stderr=_sp.STDOUT, text=True, timeout=45 * n + 600, cwd=tempfile.gettempdir())
        except _sp.TimeoutExpired:
            return None, "did not finish within %d s" % (45 * n + 600)
        for line in pr.stdout.splitlines():
            if line.startswith("C18CLI "):
                return _json.loads(line[7:]), None
        return None, "session died: " + pr.stdout[-800:]

    def cli(job):
        """One planned session; a session that a slow program ended early is continued by a NEW process (fresh state) for the
        programs that are left, at most three times.  The first session is the one that can reach the planned length."""
        k, (lang, n, flags) = job
        sd = C.sub_seed(seed, "c18cli", k) % 100000
        total = dict(programs=0, failures=[], over_limit=[])
        left, sdi, first_err = n, sd, None
        for attempt in range(4):
            out_, err_ = cli_once(lang, left, flags, sdi)
            if out_ is None:
                first_err = err_
                break
            total["programs"] += out_["programs"]
            for f_ in out_["failures"]:
                total["failures"].append(dict(f_, session_seed=sdi, session_length=left))
            total["over_limit"] += out_.get("over_limit", [])
            left -= out_["programs"]
            if left <= 0 or not out_.get("over_limit"):
                break
            sdi = (sdi * 7 + 13 + attempt) % 100000
        if first_err is not None and total["programs"] == 0:
            return lang, n, flags, sd, None, first_err
        return lang, n, flags, sd, total, None
    t1 = time.time()
    cli_programs, cli_fail, cli_hist, cli_slow = 0, 0, {}, 0
    with _cf.ThreadPoolExecutor(max_workers=min(8, C.NPROC)) as ex:
        for lang, n, flags, sd, out_, err_ in ex.map(cli, list(enumerate(plan))):
            key = "%s %s" % (lang, " ".join(flags))
            if out_ is None:
                cli_fail += 1
                rep.violation("exception-cli", "%s session of %d programs with %s (seed %d): %s" % (lang, n, flags, sd, err_),
                              dict(lang=lang, programs=n, flags=flags, seed=sd, error=err_, shape="cli-session"))
                continue
            cli_programs += out_["programs"]
            cli_slow += len(out_.get("over_limit", []))
            cli_hist[key] = out_["programs"]
            for f_ in out_["failures"][:2]:
                cli_fail += 1
                last = [l_ for l_ in f_["error"].splitlines() if l_.strip()][-1:] or [""]
                rep.violation(exc_shape(f_["error"]), "%s with %s: program %d of the session (seed %d) made the tool fail: %s"
                              % (lang, " ".join(flags), f_["pid"], sd, last[0][:200]),
                              dict(lang=lang, flags=flags, session_seed=f_.get("session_seed", sd), pid=f_["pid"], error=f_["error"],
                                   shape=exc_shape(f_["error"]),
                                   replay="harness/c18_cli.py %s %d %d %s" % (lang, f_.get("session_length", n), f_.get("session_seed", sd),
                                                                               " ".join(flags))))
    t_cli = time.time() - t1
    if scheme_err is not None:
        rep.violation("scheme-extract", "harness/gen2coq.py on src/generators/generator.py: %s" % scheme_err,
                      dict(broken="translation of the recursion scheme", error=scheme_err), no_input=True)
    if tracer is not None:
        for d in tracer.diffs[:5]:
            rep.violation("scheme-table-differs", "the running generator differs from the table translated from its source (%s): %s"
                          % (d["kind"], {k: v for k, v in d.items() if k != "kind"}),
                          dict(d, shape="scheme-table-differs", broken="harness/gen2coq.py static table vs instrumented Generator"))
        for b in tracer.bound_viol[:3]:
            rep.violation("call-depth", "%s: %d generator frames at self.depth %d (root %d) with %d listed edges; "
                          "scheme_call_depth_bounded allows %d" % (b["program"], b["frames"], b["depth"], b["depth_root"], b["listed"], b["allowed"]),
                          dict(b, shape="call-depth"))
    for i in mism:
        rep.violation("correspondence", "get_generators differs from the model on %s" % (cases[i],),
                      dict(case=list(cases[i]), broken="correspondence IR.Depth.get_generators vs Generator.get_generators"),
                      no_input=not (bound_viol or failures))
    for c in unknown_tags[:3]:
        rep.violation("correspondence", "get_generators returned a generator the harness cannot identify: %s" % (c,),
                      dict(case=list(c), broken="tagging of Generator.get_generators"), no_input=True)
    for (lang, md, sd, cd, bound) in bound_viol:
        rep.violation("nesting", "%s max_depth=%d seed %d: %d composite nodes on one path, the proved bound is %d" % (lang, md, sd, cd, bound),
                      dict(lang=lang, max_depth=md, seed=sd, nesting=cd, bound=bound))
    for f in failures:
        sh_ = exc_shape(f["error"] + " " + " ".join(f["where"]), "exception")
        rep.violation(sh_, "%s max_depth=%d seed %d: stage '%s' raised %s at %s" % (f["lang"], f["max_depth"], f["seed"], f["stage"],
                                                                                    f["error"], f["where"]), dict(f, shape=sh_))
    if not proof_ok and not rep.violations:
        rep.violation("proof", rep.proof_broken, dict(broken=rep.proof_broken), no_input=True)
    rep.add(cli_sessions=len(plan), cli_programs=cli_programs, cli_failures=cli_fail, cli_programs_abandoned_after_the_time_limit=cli_slow, cli_sessions_histogram=cli_hist, cli_s=round(t_cli, 1),
            cli_rule="sessions of the real driver code in separate processes: options parsed by src/args.py, per program what hephaestus._run "
                     "does (reset_word_pool per batch of 10, gen_program = generate + transformation schedule + fault injection + translation "
                     "+ saving), random stream seeded per program; up to 125 programs in one process")
    rep.add(schedule_cases=len(scases), schedule_hangs=len(hangs), erasure_search_cases=len(bcases),
            erasure_search_budget_hit=sum(1 for c in bcases if c[3] == 0 and c[2] == c[0] + 1),
            new_cut_cases=len(gcases), new_cut_beyond_limit=sum(1 for c in gcases if c[1] > 2 * c[2]),
            work_model_mismatches=len(smis) + len(bmis) + len(gmis))
    if scheme is not None:
        sm = gen2coq.summary(scheme)
        cyc = []
        for c in gen2coq.all_cycles(scheme, limit=200):
            if c not in cyc:
                cyc.append(c)
        rep.add(scheme_table=sm, scheme_bound_frames_per_unit=scheme_bound, scheme_check_parts=scheme_parts,
                scheme_listed_edges=sorted("%s->%s" % e for e in gen2coq.LISTED),
                scheme_example_path=scheme.get("example_path"), scheme_example_cycle=scheme.get("example_cycle"),
                scheme_example_cycle_checked_by_kernel=cycle_checked,
                scheme_cycles_permitted_at_every_depth=dict(
                    distinct=len(cyc), shortest=cyc[:12],
                    note="cycles of the static table through generate_expr that use no full-branch dispatch site, no listed edge and no "
                         "site cut by depth > 2*max_depth; each raises self.depth every round and nothing in the depth logic cuts it "
                         "(permitted_cycle_is_unbounded); the table over-approximates the code (types, `expr or ...`), so feasibility "
                         "of a particular cycle is not decided here"),
                scheme_dynamic=tracer.report() if tracer is not None else None)
    rep.add(evaluations=len(cases) + nprog + len(scases) + len(bcases) + len(gcases), get_generators_cases=len(cases), distinct_nontrivial=len({tuple(c[:9]) for c in cases}),
            traces_validated_against_impl=len(cases), model_impl_mismatches=len(mism), programs=nprog, stage_failures=stage_fail,
            worst_nesting={"%s/%d" % k: v for k, v in worst.items()}, pipeline_s=round(t_tr, 1),
            rule="(a) random (type kind, depth, max_depth, only_leaves, exclude_var, variable budget) tuples driven through the real "
                 "get_generators of a Generator whose gen_* methods are tagged; (b) programs for 4 languages x max_depth in {3, 6} x "
                 "seeds go through generate -> translate -> erase -> translate -> overwrite -> translate; nesting is the number of "
                 "composite nodes on a root-to-leaf path",
            samples=[dict(case=[str(x) for x in cases[0]])],
            trusted_base=C.TRUSTED_BASE_COMMON + [
                "exception freedom and termination of the real pipeline are explored per run, not proved; the theorems are about the "
                "depth logic (get_generators model, abstract recursion scheme)"])
    rep.assumptions = ["the abstract recursion scheme (IR/Depth.v Gen) is hand-written from reading generator.py; it is tied to the code by "
                       "the measured nesting of generated programs only",
                       "the scheme TABLE (Generated/GenScheme.v) is translated from the source of generator.py by harness/gen2coq.py "
                       "(fail-closed) and compared with the instrumented generator on every traced program; its theorems bound the "
                       "number of generator frames by the depth counter climbed and the listed edges used (IR/Scheme.v listed_names, "
                       "hand-written with their justification); the table does not model types, so it does not bound the depth counter "
                       "itself (scheme_call_depth_bounded_by_max_depth_refuted)"]
    return rep.finish()
