"""Shared machinery for every ./check Cxx run.

  * repo import shim (PYTHONPATH=/repo, argv, hash seed, word pool seeding)
  * Coq build / Properties_Cxx.v re-check / Print Assumptions capture
  * case-file runner (Cases/*.v evaluated by vm_compute inside coqc, in parallel)
  * evidence writer, replay writer, VIOLATION / KNOWN-FINDING protocol
"""
import concurrent.futures as cf
import hashlib
import json
import os
import random
import re
import subprocess as sp
import sys
import time

VERIF = os.path.dirname(os.path.dirname(os.path.abspath(__file__)))
REPO = os.environ.get("VERIF_REPO", "/repo")
COQ = os.path.join(VERIF, "coq")
CASES = os.path.join(COQ, "Cases")
EVID = os.path.join(VERIF, "evidence")
REPLAYS = os.path.join(VERIF, "replays")
CORPUS = os.path.join(VERIF, "corpus")
GUARD = "HEPHAESTUS_VERIF"
NPROC = min(16, os.cpu_count() or 4)

FORBIDDEN = re.compile(
    r"\b(Admitted|admit|Axiom|Axioms|Parameter|Parameters|Conjecture|Hypothesis|Variable|"
    r"Unset\s+Guard|bypass_check|Admit\s+Obligations|type-in-type|impredicative-set|"
    r"Unset\s+Universe|Unset\s+Positivity)\b")


# --------------------------------------------------------------------------- repo shim

def setup_repo_import(seed=0, argv=None):
    """Make `import src...` resolve to the working tree of /repo, deterministically."""
    os.environ[GUARD] = "1"
    os.environ.setdefault("PYTHONHASHSEED", "0")
    if REPO not in sys.path:
        sys.path.insert(0, REPO)
    sys.argv = argv or ["hephaestus.py", "--iterations", "1", "--batch", "1",
                        "--language", "kotlin", "--dry-run"]
    random.seed(seed)


def reexec_with_hashseed():
    """PYTHONHASHSEED must be fixed before the interpreter starts."""
    if os.environ.get("PYTHONHASHSEED") != "0":
        env = dict(os.environ)
        env["PYTHONHASHSEED"] = "0"
        env["PYTHONPATH"] = REPO + os.pathsep + os.path.join(VERIF, "harness")
        env[GUARD] = "1"
        env["PYTHONDONTWRITEBYTECODE"] = "1"
        os.execve(sys.executable, [sys.executable] + sys.argv, env)


# --------------------------------------------------------------------------- Coq terms

def cnat(n):
    assert isinstance(n, int) and n >= 0
    return str(n)


def cbool(b):
    return "true" if b else "false"


def clist(xs, f=str):
    return "[" + "; ".join(f(x) for x in xs) + "]"


def cpair(a, b):
    return "(%s, %s)" % (a, b)


def copt(x, f=str):
    return "None" if x is None else "(Some %s)" % f(x)


def cstring(s):
    """Coq string literal (ASCII only; non-ASCII is rejected by the callers)."""
    return '"' + s.replace('"', '""') + '"'


# --------------------------------------------------------------------------- running Coq

def run(cmd, timeout, cwd=None, env=None):
    t0 = time.time()
    try:
        p = sp.run(cmd, cwd=cwd, env=env, stdout=sp.PIPE, stderr=sp.STDOUT,
                   timeout=timeout, text=True, errors="replace")
        return p.returncode, p.stdout, time.time() - t0
    except sp.TimeoutExpired as e:
        out = e.stdout or ""
        if isinstance(out, bytes):
            out = out.decode("utf-8", "replace")
        return 124, out + "\nTIMEOUT after %ss" % timeout, time.time() - t0


def coq_env():
    env = dict(os.environ)
    env.pop("COQPATH", None)
    return env


def ensure_makefile():
    mk = os.path.join(COQ, "Makefile")
    cp = os.path.join(COQ, "_CoqProject")
    if (not os.path.exists(mk)) or os.path.getmtime(mk) < os.path.getmtime(cp):
        rc, out, _ = run(["coq_makefile", "-f", "_CoqProject", "-o", "Makefile"], 120, cwd=COQ)
        if rc != 0:
            raise RuntimeError("coq_makefile failed:\n" + out)


def coq_make(targets, timeout=3000):
    """Full .vo build of the given targets (paths relative to coq/)."""
    ensure_makefile()
    cmd = ["make", "-j%d" % NPROC] + list(targets)
    rc, out, dt = run(cmd, timeout, cwd=COQ, env=coq_env())
    return rc == 0, out, dt


def _coqc_slot():
    """At most NPROC coqc processes machine-wide (checks of several properties may run side by side, each with its own pool of
    workers): a slot is an flock on one of NPROC files under the system's temporary directory; None when that cannot be had
    (the run then proceeds without the limit)."""
    import fcntl
    import tempfile
    d = os.path.join(tempfile.gettempdir(), "heph-coqc-slots")
    try:
        os.makedirs(d, exist_ok=True)
        t_end = time.time() + 1800
        while time.time() < t_end:
            for k in range(NPROC):
                f = open(os.path.join(d, "slot%d" % k), "w")
                try:
                    fcntl.flock(f, fcntl.LOCK_EX | fcntl.LOCK_NB)
                    return f
                except OSError:
                    f.close()
            time.sleep(0.1)
    except OSError:
        pass
    return None


def coqc_file(path, timeout=600):
    """Compile one file that lives under coq/ with the project's logical path."""
    cmd = ["coqc", "-q", "-Q", ".", "Heph", path]
    slot = _coqc_slot()
    try:
        rc, out, dt = run(cmd, timeout, cwd=COQ, env=coq_env())
    finally:
        if slot is not None:
            slot.close()
    return rc, out, dt


def scan_forbidden(dirs):
    """No Admitted / Axiom / Parameter ... anywhere in the development."""
    hits = []
    for d in dirs:
        base = os.path.join(COQ, d)
        for root, _, files in os.walk(base):
            for fn in files:
                if not fn.endswith(".v"):
                    continue
                p = os.path.join(root, fn)
                txt = open(p, encoding="utf-8", errors="replace").read()
                txt = strip_coq_comments(txt)
                for m in FORBIDDEN.finditer(txt):
                    line = txt.count("\n", 0, m.start()) + 1
                    # `Variable`/`Hypothesis` are allowed inside a Section only
                    if m.group(1) in ("Variable", "Hypothesis"):
                        if in_section(txt, m.start()):
                            continue
                    hits.append("%s:%d:%s" % (os.path.relpath(p, COQ), line, m.group(1)))
    return hits


def strip_coq_comments(txt):
    out = []
    depth = 0
    i = 0
    n = len(txt)
    in_str = False
    while i < n:
        c = txt[i]
        if depth == 0 and c == '"':
            in_str = not in_str
            out.append(c)
            i += 1
            continue
        if not in_str and txt.startswith("(*", i):
            depth += 1
            i += 2
            continue
        if not in_str and depth > 0 and txt.startswith("*)", i):
            depth -= 1
            i += 2
            continue
        if depth == 0:
            out.append(c)
        elif c == "\n":
            out.append(c)
        i += 1
    return "".join(out)


def in_section(txt, pos):
    opened = len(re.findall(r"^\s*Section\s+\w+", txt[:pos], flags=re.M))
    closed = len(re.findall(r"^\s*End\s+\w+", txt[:pos], flags=re.M))
    # Module ... End also counts as End; be conservative: only count Section openers
    mods = len(re.findall(r"^\s*Module\s+(Type\s+)?\w+", txt[:pos], flags=re.M))
    return opened - max(0, closed - mods) > 0


THEOREM_RE = re.compile(r"^\s*(?:Theorem|Lemma|Corollary|Example)\s+([A-Za-z_][A-Za-z0-9_']*)", re.M)


def check_properties_file(relpath, deps, timeout=1500):
    """Rebuild deps, then re-check Properties_Cxx.v itself and capture Print Assumptions.

    Returns dict(ok, obligations=[names], discharged=[names], assumptions={name: text},
                 log, cmd)."""
    src = os.path.join(COQ, relpath)
    txt = strip_coq_comments(open(src).read())
    names = THEOREM_RE.findall(txt)
    deps = list(deps) + [relpath[:-2] + ".vo"]       # the theorem file pulls in its whole closure
    ok, out, dt = coq_make(deps, timeout=timeout)
    res = dict(ok=False, obligations=names, discharged=[], assumptions={}, log=out[-4000:],
               cmd="make -C coq %s && coqc -Q . Heph %s" % (" ".join(deps), relpath),
               failed_dep=None)
    if not ok:
        m = re.search(r'File "\./([^"]+)", line (\d+)', out)
        res["failed_dep"] = m.group(0) if m else "make failed"
        return res
    rc, out2, _ = coqc_file(relpath, timeout=timeout)
    res["log"] = out2[-6000:]
    if rc != 0:
        m = re.search(r'File "\./([^"]+)", line (\d+)', out2)
        res["failed_dep"] = m.group(0) if m else "coqc failed"
        return res
    # Print Assumptions output, in file order
    blocks = re.split(r"(?=Closed under the global context|Axioms:)", out2)
    blocks = [b.strip() for b in blocks if b.strip().startswith(("Closed under", "Axioms:"))]
    pa_names = re.findall(r"Print\s+Assumptions\s+([A-Za-z_][A-Za-z0-9_']*)", txt)
    for nm, b in zip(pa_names, blocks):
        res["assumptions"][nm] = " ".join(b.split())
    res["ok"] = True
    res["discharged"] = list(names)
    return res


def run_case_files(files, timeout=900, workers=NPROC):
    """files: list of (basename_without_ext, coq_text).  Returns {name: (rc, output)}."""
    os.makedirs(CASES, exist_ok=True)
    for name, text in files:
        with open(os.path.join(CASES, name + ".v"), "w") as f:
            f.write(text)

    def one(name):
        rc, out, dt = coqc_file(os.path.join("Cases", name + ".v"), timeout=timeout)
        return name, rc, out

    res = {}
    with cf.ThreadPoolExecutor(max_workers=workers) as ex:
        for name, rc, out in ex.map(one, [n for n, _ in files]):
            res[name] = (rc, out)
    return res


def clean_cases(prefix):
    if not os.path.isdir(CASES):
        return
    for fn in os.listdir(CASES):
        if fn.startswith(prefix) or fn.startswith("." + prefix):
            try:
                os.remove(os.path.join(CASES, fn))
            except OSError:
                pass


CASE_HEADER = "Set Printing Width 1000000.\nSet Printing Depth 1000000.\n"


def parse_eval_outputs(out):
    """Split coqc stdout into the values printed by successive `Eval ... in` commands.
    Each is returned as a whitespace-normalised string 'value : type'."""
    parts = re.split(r"^\s*= ", out, flags=re.M)[1:]
    return [" ".join(p.split()) for p in parts]


def parse_nat_list(s):
    """'[1; 2; 3] : list nat' -> [1,2,3]"""
    body = s.split(" : ")[0].strip()
    if body in ("[]", "nil"):
        return []
    assert body.startswith("[") and body.endswith("]"), body
    return [int(x.strip().split("%")[0]) for x in body[1:-1].split(";") if x.strip()]


# --------------------------------------------------------------------------- evidence etc.

class Report:
    """Accumulates what one check run did; writes evidence; prints verdict lines."""

    def __init__(self, pid, tier, seed, level):
        self.pid = pid
        self.tier = tier
        self.seed = seed
        self.level = level
        self.t0 = time.time()
        self.coverage = {}
        self.assumptions = []
        self.violations = []      # (what, replay_path, suffix)
        self.known = []
        self.known_findings = load_known_findings(pid)
        self._replay_n = 0

    def add(self, **kw):
        self.coverage.update(kw)

    def bump(self, key, n=1):
        self.coverage[key] = self.coverage.get(key, 0) + n

    def violation(self, kind, what, detail, no_input=False):
        """kind: short tag used by known-findings matchers; detail: JSON-able replay body."""
        for kf in self.known_findings:
            if kf.get("status", "open") != "open":
                continue
            if match_known(kf, kind, detail):
                msg = "KNOWN-FINDING: property=%s %s" % (self.pid, kf["what"])
                if msg not in self.known:
                    self.known.append(msg)
                return False
        os.makedirs(os.path.join(REPLAYS, self.pid), exist_ok=True)
        self._replay_n += 1
        path = os.path.join(REPLAYS, self.pid, "%s-%d-%d.json" % (
            time.strftime("%Y%m%dT%H%M%S"), os.getpid(), self._replay_n))
        body = dict(property=self.pid, kind=kind,
                    replay_kind="no-failing-input-found" if no_input else "failing-input",
                    what=what, seed=self.seed, tier=self.tier, detail=detail)
        with open(path, "w") as f:
            json.dump(body, f, indent=1, default=str)
        self.violations.append((what, path, " no-failing-input-found" if no_input else ""))
        return True

    def finish(self):
        cov = self.coverage
        ev = dict(property_id=self.pid, tier=self.tier, seed=self.seed, level=self.level,
                  coverage=cov, assumptions=self.assumptions,
                  wall_s=round(time.time() - self.t0, 2), violations=len(self.violations),
                  known_findings=self.known)
        os.makedirs(EVID, exist_ok=True)
        with open(os.path.join(EVID, self.pid + ".json"), "w") as f:
            json.dump(ev, f, indent=1, default=str)
        for k in self.known:
            print(k)
        seen = 0
        for what, path, suffix in self.violations:
            if seen < 20:
                print("  violation: %s" % what)
            seen += 1
        if self.violations:
            what, path, suffix = self.violations[0]
            print("VIOLATION property=%s replay=%s%s" % (self.pid, path, suffix))
            return 1
        print("OK property=%s tier=%s wall=%.1fs" % (self.pid, self.tier, time.time() - self.t0))
        return 0


def load_known_findings(pid):
    p = os.path.join(VERIF, "known_findings.json")
    if not os.path.exists(p):
        return []
    data = json.load(open(p))
    return [k for k in data.get("findings", []) if k.get("property") == pid]


def match_known(kf, kind, detail):
    """A finding matches when its kind agrees and its matcher (a small predicate language
    evaluated by the per-property module) accepts the replay detail."""
    if kf.get("kind") != kind:
        return False
    matcher = kf.get("matcher")
    if matcher is None:
        return False
    fn = MATCHERS.get(matcher)
    if fn is None:
        return False
    try:
        return bool(fn(detail, kf))
    except Exception:
        return False


MATCHERS = {}


def _shape_eq_kind(detail, kf):
    return detail.get("shape") == kf.get("kind")


MATCHERS["shape_eq_kind"] = _shape_eq_kind


def matcher(name):
    def deco(f):
        MATCHERS[name] = f
        return f
    return deco


def proof_part(rep, relpath, deps, dirs):
    """Shared first phase of every proof-level check.  Returns True when the theorems
    were re-checked; otherwise records a no-failing-input-found candidate in rep.proof_broken."""
    hits = scan_forbidden(dirs)
    pr = check_properties_file(relpath, deps)
    rep.add(obligations=len(pr["obligations"]), discharged=len(pr["discharged"]),
            checker_cmd=pr["cmd"], theorem_names=pr["obligations"],
            print_assumptions=pr["assumptions"], forbidden_tokens=hits)
    rep.proof_broken = None
    if hits:
        rep.proof_broken = "forbidden token(s) in development: " + ", ".join(hits[:5])
    if not pr["ok"]:
        rep.proof_broken = "proof obligation no longer checks: %s\n%s" % (pr["failed_dep"], pr["log"][-1500:])
    non_closed = {k: v for k, v in pr["assumptions"].items() if not v.startswith("Closed under")}
    rep.add(axioms_used=non_closed)
    return rep.proof_broken is None


def proof_part_extra(rep, pr):
    """Merge the result of check_properties_file for a FURTHER theorem file of the same property into the
    coverage that proof_part recorded (obligations, discharged, theorem names, Print Assumptions); returns
    True when that file re-checked.  A broken file sets rep.proof_broken like proof_part does."""
    cov = rep.coverage
    cov["obligations"] = cov.get("obligations", 0) + len(pr.get("obligations") or [])
    cov["discharged"] = cov.get("discharged", 0) + len(pr.get("discharged") or [])
    cov["theorem_names"] = list(cov.get("theorem_names", [])) + list(pr.get("obligations") or [])
    pa = dict(cov.get("print_assumptions", {}))
    pa.update(pr.get("assumptions") or {})
    cov["print_assumptions"] = pa
    cov["checker_cmd"] = (cov.get("checker_cmd", "") + " ; " + (pr.get("cmd") or "")).strip(" ;")
    non_closed = {k: v for k, v in (pr.get("assumptions") or {}).items() if not v.startswith("Closed under")}
    ax = dict(cov.get("axioms_used", {}))
    ax.update(non_closed)
    cov["axioms_used"] = ax
    if not pr.get("ok"):
        rep.proof_broken = pr.get("broken") or ("proof obligation no longer checks: %s\n%s" % (pr.get("failed_dep"), (pr.get("log") or "")[-1500:]))
    return bool(pr.get("ok"))


TRUSTED_BASE_COMMON = [
    "Coq 8.16.1 kernel and its bytecode VM (vm_compute); native_compute is not used",
    "the hand-written Gallina model is tied to /repo only by the correspondence check of this run (differential testing; strength bounded by the generators whose distributions are recorded here)",
    "harness/*.py: serialisation of Python values to Coq terms and the drivers of the real code",
    "CPython 3.12 executing /repo's working tree",
]


def seed_from_env():
    try:
        return int(os.environ.get("VERIF_SEED", "0"))
    except ValueError:
        return 0


def sub_seed(seed, *tags):
    h = hashlib.sha256(("%d/" % seed + "/".join(map(str, tags))).encode()).hexdigest()
    return int(h[:12], 16)
