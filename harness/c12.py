"""C12 -- translations are faithful to the program's declarations and annotations.

What Coq carries (coq/IR/PrintKotlin.v, PrintProofs.v, Properties_C12.v), for KOTLIN: the
model of KotlinTranslator emits segment lists in which the declared names (in declaration
position), the literals and the operators are marked; the theorems say that the marks of the
text are exactly (as a multiset) the declaration / literal / operator nodes of the tree
(declares_exactly), that round brackets and braces of the whole text are balanced
(brackets_balanced), and that ": T" / explicit type arguments are printed iff the node carries
var_type / ret_type / not can_infer_type_args (structural equations of the printers).
Tie: for every explored program (generated, erased, overwritten, and random trees) the model's
text is compared byte for byte with the real KotlinTranslator's inside Coq, and the same Coq
evaluation reports the hypotheses of the theorems (wf, clean), the balance of the REAL text and
the inventory decision (c12_report).
Java, Groovy, Scala have no model.  For all four languages the harness additionally runs
text scanners on the real output -- labelled EXPLORATION: bracket balance of (), {}, [] (evaluated
in Coq), class names in declaration position, string / char / real literals present, and, per
variable declaration, "the declared type is printed iff var_type is present" (after erasure and
after overwriting).  A scanner finding is reported with its own kind/shape.
"""
import json
import os
import pickle
import random
import re
import threading
import time

import common as C
import progs
import ir2print as P
import c11 as H

EXTRA_MODELS = [("scala", "printcorr_scala"), ("java", "printcorr_java"), ("groovy", "printcorr_groovy")]
OPTS = H.OPTS


def walk(n, acc):
    acc.append(n)
    for c in n.children():
        if hasattr(c, "children"):
            walk(c, acc)
    return acc


def nodes_of(p):
    acc = []
    for d in p.children():
        walk(d, acc)
    return acc


def var_scan(lang, p, text):
    """per variable declaration: (name, carries a declared type, the text prints one, is global, line).
    Variables whose name is declared more than once or whose declaration line is not found are
    returned with printed = None."""
    from src.ir import ast
    glob = {id(d) for d in p.children()}
    vs = [n for n in nodes_of(p) if isinstance(n, ast.VariableDeclaration)]
    names = {}
    for v in vs:
        names[v.name] = names.get(v.name, 0) + 1
    lines = text.splitlines()
    out = []
    for v in vs:
        if names[v.name] != 1:
            out.append((v.name, v.var_type is not None, None, id(v) in glob, "duplicate name"))
            continue
        printed, where = None, None
        if lang in ("kotlin", "scala"):
            rx = re.compile(r"\b(?:val|var) %s(: | = )" % re.escape(v.name))
            hits = [(m.group(1), l) for l in lines for m in [rx.search(l)] if m]
            if len(hits) == 1:
                printed, where = hits[0][0] == ": ", hits[0][1]
        else:
            key = v.name + " = "
            hits = []
            for l in lines:
                k = l.find(key)
                while k >= 0:
                    head = l[:k]
                    if (k == 0 or not (head[-1].isalnum() or head[-1] == "_")) and head.strip() and not head.rstrip().endswith(
                            ("(", ",", "=", "?", ":", "&&", "||", "return", "->", "{")):
                        hits.append((head, l))
                    k = l.find(key, k + 1)
            hits = [(h, l) for h, l in hits if re.search(r"[\w>\]]\s+(\w+\.)*$", h)]
            if len(hits) == 1:
                head = hits[0][0].strip()
                head = re.sub(r"(\w+\.)+$", "", head).strip()
                # the token in front of the name: `var` / `def` (or only `final`) means no type
                head = head.split()[-1] if head.split() else ""
                printed, where = head not in ("var", "def", "final", "static", ""), hits[0][1]
        out.append((v.name, v.var_type is not None, printed, id(v) in glob, where))
    return out


def text_inventory_scan(lang, p, text):
    """class names in declaration position exactly once; string / char / real literals present"""
    from src.ir import ast
    probs = []
    for n in nodes_of(p):
        if isinstance(n, ast.ClassDeclaration):
            k = len(re.findall(r"\b(?:class|interface|trait)\s+%s\b" % re.escape(n.name), text))
            if k != 1:
                probs.append("class %s declared %d times" % (n.name, k))
        elif isinstance(n, ast.StringConstant):
            if '"%s"' % n.literal not in text:
                probs.append("string literal %r missing" % n.literal)
        elif isinstance(n, ast.CharConstant):
            if "'%s'" % n.literal not in text:
                probs.append("char literal %r missing" % n.literal)
        elif isinstance(n, ast.RealConstant):
            if str(n.literal).lstrip("-") not in text:
                probs.append("real literal %r missing" % n.literal)
    return probs


def parse_tuple(s):
    body = s.split(" : ")[0].strip()
    return [x.strip() == "true" for x in body.strip("()").split(",")]


def run(tier, seed, replay=None):
    rep = C.Report("C12", tier, seed, "proof")
    C.setup_repo_import(seed, ["hephaestus.py", "--iterations", "1", "--language", "kotlin"])
    import src.args  # noqa: F401
    from src import utils
    from src.transformations.type_erasure import TypeErasure
    from src.transformations.type_overwriting import TypeOverwriting
    TR = H._translators()
    rows = progs.config_table()
    progs.set_cfg(rows[0])
    proof_ok = C.proof_part(rep, "IR/Properties_C12.v", ["IR/PrintKotlin.vo", "IR/PrintProofs.vo"], ["IR"])
    quick = tier == "quick"
    nk = int(os.environ.get("VERIF_C12_N", "5" if quick else "150"))
    nother = 2 if quick else 40
    nfuzz = 40 if quick else 2000
    mutated, crashes, gen_timeouts = [], [], []
    t0 = time.time()

    # ------------------------------------------------------------------ programs of the four languages
    per_lang = {}
    if replay:
        d = json.load(open(replay))["detail"]
        o = H.Obs(0, d.get("lang", "kotlin"), d.get("seed", -1), d.get("stage", "replay"), open(d["program_bin"], "rb").read())
        p = o.program()
        o.see("src.pkg", utils.translate_program(TR[o.lang]("src.pkg", OPTS), p), "fresh")
        per_lang[o.lang] = [o]
    else:
        for lang in ("kotlin", "java", "groovy", "scala"):
            vs = []
            for s in range(nk if lang == "kotlin" else nother):
                sd = C.sub_seed(seed, "c12prog", lang, s) % (2 ** 31)
                try:
                    vs.extend(H.stages_of(lang, sd, TypeErasure, TypeOverwriting, utils, TR, mutated, 1000 * len(per_lang) + len(vs),
                                          pkgs=("src.pkg", "src.pkg")))
                except P.GenTimeout:
                    gen_timeouts.append((lang, sd))
                except Exception as e:      # noqa: BLE001
                    crashes.append((lang, sd, "%s: %s" % (type(e).__name__, str(e)[:120])))
            per_lang[lang] = vs
    t_gen = time.time() - t0

    kvars = per_lang.get("kotlin", [])
    for o in kvars:
        try:
            o.term = P.PSer(o.program()).prog()
        except P.SerError as e:
            crashes.append(("kotlin", o.seed, "serialiser: %s" % e))
    kvars = [o for o in kvars if o.term is not None]

    # directed stream: random trees (the theorems' hypotheses may fail on them: then the
    # evaluated booleans are free, but the text must still be the model's)
    fuzz = []
    fuzz_crash = {}
    for s in range(0 if replay else nfuzz):
        frng = random.Random(C.sub_seed(seed, "c12fuzz", s))
        fz = P.Fuzz(frng)
        p = fz.program()
        sam = [n for n in fz.class_names if frng.random() < 0.5] if s % 2 else []
        with P.SamOracle(sam):
            try:
                t1 = utils.translate_program(TR["kotlin"]("src.pkg", OPTS), p)
            except Exception as e:      # noqa: BLE001
                fuzz_crash[type(e).__name__] = fuzz_crash.get(type(e).__name__, 0) + 1
                continue
            o = H.Obs(100000 + s, "kotlin", s, "directed", b"")
            o.obj = p
            o.term = P.PSer(p).prog()
            o.see("src.pkg", t1, "fresh")
            fuzz.append(o)

    # ------------------------------------------------------------------ Coq
    def text_of(o):
        return next(iter(o.texts["src.pkg"]))

    files, index = [], {}
    for k in range(0, len(kvars), 3):
        name = "c12k_%d" % (k // 3)
        chunk = kvars[k:k + 3]
        files.append((name, P.HEADER + "".join("Definition v%d : pprogram := %s.\n" % (o.vid, o.term) for o in chunk) +
                      "".join("Eval vm_compute in (c12_report \"src.pkg\" v%d %s).\n" % (o.vid, P.cstr(text_of(o))) for o in chunk)))
        index[name] = chunk
    for k in range(0, len(fuzz), 20):
        name = "c12f_%d" % (k // 20)
        chunk = fuzz[k:k + 20]
        files.append((name, P.HEADER + "".join("Eval vm_compute in (c12_report \"src.pkg\" %s %s).\n" % (o.term, P.cstr(text_of(o)))
                                              for o in chunk)))
        index[name] = chunk
    for lang in ("java", "groovy", "scala"):
        vs = per_lang.get(lang, [])
        if vs:
            name = "c12b_%s" % lang
            files.append((name, P.HEADER + "".join("Eval vm_compute in (balance3 %s).\n" % P.cstr(text_of(o)) for o in vs)))
            index[name] = vs
    C.clean_cases("c12")
    coq_res, coq_t = {}, []

    def coq():
        tc = time.time()
        coq_res.update(C.run_case_files(files, timeout=1800))
        coq_t.append(time.time() - tc)

    th = threading.Thread(target=coq)
    th.start()

    # ------------------------------------------------------------------ scanners on the real text (exploration)
    scan = {l: dict(variables=0, decided=0, agree=0, erased_but_printed=0, present_but_not_printed=0, globals_exempt=0,
                    inventory_problems=0) for l in per_lang}
    ann_viol, inv_viol = [], []
    for lang, vs in per_lang.items():
        for o in vs:
            p, text = o.program(), text_of(o)
            for name, carries, printed, is_glob, where in var_scan(lang, p, text):
                st = scan[lang]
                st["variables"] += 1
                if printed is None:
                    continue
                st["decided"] += 1
                if carries == printed:
                    st["agree"] += 1
                elif printed and not carries:
                    if is_glob and lang in ("java", "groovy"):
                        st["globals_exempt"] += 1      # fields of Main: the language cannot omit the type
                    else:
                        st["erased_but_printed"] += 1
                        ann_viol.append((o, name, where, "erased-type-printed"))
                else:
                    st["present_but_not_printed"] += 1
                    ann_viol.append((o, name, where, "declared-type-not-printed"))
            probs = text_inventory_scan(lang, p, text)
            if probs:
                scan[lang]["inventory_problems"] += len(probs)
                inv_viol.append((o, probs))
    th.join()

    # ------------------------------------------------------------------ verdicts
    os.makedirs(os.path.join(C.REPLAYS, "C12"), exist_ok=True)

    def save(o):
        path = os.path.join(C.REPLAYS, "C12", "prog-%s-%s-%s.bin" % (o.lang, o.seed, o.stage))
        with open(path, "wb") as f:
            f.write(o.blob or pickle.dumps(o.obj))
        return path

    queue = []

    def defer(prio, *a, **k):
        """violations are emitted at the end, failing inputs (implementation findings) first"""
        queue.append((prio, len(queue), a, k))

    stats = dict(compared=0, mismatches=0, wf=0, clean=0, in_hypotheses=0, balanced_real_text=0, inventory_ok=0)
    fstats = dict(compared=0, mismatches=0, in_hypotheses=0, outside_hypotheses=0)
    bal_other = {}
    for name, _ in files:
        rc, out = coq_res[name]
        if rc != 0:
            defer(5, "case-file", "case file %s did not evaluate: %s" % (name, out[-400:]), dict(broken=name, log=out[-3000:]),
                          no_input=True)
            continue
        vals = C.parse_eval_outputs(out)
        for o, v in zip(index[name], vals):
            b = parse_tuple(v)
            if name.startswith("c12b_"):
                st = bal_other.setdefault(o.lang, dict(texts=0, balanced=0))
                st["texts"] += 1
                if all(b):
                    st["balanced"] += 1
                else:
                    defer(1, "balance", "%s %s seed %s [exploration, no model]: brackets of the real text are not balanced "
                                  "((), {}, []) = %s" % (o.lang, o.stage, o.seed, b),
                                  dict(lang=o.lang, seed=o.seed, stage=o.stage, program_bin=save(o), shape="unbalanced-text"))
                continue
            eq, wf, clean, bp, bb, inv = b
            directed = o.stage == "directed"
            S = fstats if directed else stats
            S["compared"] += 1
            if not eq:
                S["mismatches"] += 1
                defer(3, "correspondence", "kotlin %s seed %s: the text of the real KotlinTranslator is not the model's print_program"
                              % (o.stage, o.seed),
                              dict(lang="kotlin", seed=o.seed, stage=o.stage, program_bin=save(o),
                                   broken="correspondence IR.PrintKotlin.print_program vs KotlinTranslator"), no_input=True)
                continue
            if directed:
                fstats["in_hypotheses" if (wf and clean) else "outside_hypotheses"] += 1
                if wf and clean and not (bp and bb and inv):
                    defer(4, "theorem-vs-evaluation", "directed tree %s: within the hypotheses but (balanced(), balanced{}, inventory) = %s"
                                  % (o.seed, (bp, bb, inv)), dict(seed=o.seed, value=b, program_bin=save(o)), no_input=True)
                continue
            stats["wf"] += wf
            stats["clean"] += clean
            stats["in_hypotheses"] += (wf and clean)
            stats["balanced_real_text"] += (bp and bb)
            stats["inventory_ok"] += inv
            if not wf:
                defer(2, "hypothesis", "kotlin %s seed %s: the program does not have the node shape the theorems assume (wf = false)"
                              % (o.stage, o.seed), dict(lang="kotlin", seed=o.seed, stage=o.stage, program_bin=save(o), shape="not-wf"))
            if not (bp and bb):
                defer(1, "balance", "kotlin %s seed %s: brackets of the real text are not balanced: () %s, {} %s (clean = %s)"
                              % (o.stage, o.seed, bp, bb, clean),
                              dict(lang="kotlin", seed=o.seed, stage=o.stage, program_bin=save(o), shape="unbalanced-text"))
            if not inv:
                defer(1, "inventory", "kotlin %s seed %s: the marked pieces of the text are not the inventory of the program"
                              % (o.stage, o.seed), dict(lang="kotlin", seed=o.seed, stage=o.stage, program_bin=save(o), shape="inventory"))
    seen = set()
    for o, name, where, kind in ann_viol:
        key = (o.lang, kind)
        if key in seen:
            continue
        seen.add(key)
        n_same = sum(1 for x in ann_viol if (x[0].lang, x[3]) == key)
        what = ("the program carries no declared type for the variable but the text prints one" if kind == "erased-type-printed"
                else "the program carries a declared type for the variable but the text prints none")
        defer(0, "%s-%s" % (o.lang, kind), "%s %s seed %s%s: variable %s: %s: %r (%d such variables in this run)"
                      % (o.lang, o.stage, o.seed, "" if o.lang == "kotlin" else " [scanner, no model]", name, what, (where or "").strip()[:120],
                         n_same),
                      dict(lang=o.lang, seed=o.seed, stage=o.stage, variable=name, line=where, program_bin=save(o),
                           shape="%s-%s" % (o.lang, kind), count=n_same))
    for o, probs in inv_viol[:5]:
        defer(1, "inventory", "%s %s seed %s [scanner]: %s" % (o.lang, o.stage, o.seed, "; ".join(probs[:3])),
                      dict(lang=o.lang, seed=o.seed, stage=o.stage, problems=probs[:10], program_bin=save(o), shape="%s-inventory-scan" % o.lang))
    for _, _, a, k in sorted(queue, key=lambda q: (q[0], q[1])):
        rep.violation(*a, **k)
    C.clean_cases("c12")
    # further modelled translators (own model, theorem files and correspondence each)
    extra_cov = {}
    for lang_, modname in EXTRA_MODELS:
        mod = __import__(modname)
        part = mod.run_part(rep, tier, seed, "C12")
        proof_ok = C.proof_part_extra(rep, part["proof"]) and proof_ok
        extra_cov[lang_] = {k: v for k, v in part.items() if k not in ("proof", "obligations", "discharged", "print_assumptions")}
    if not proof_ok and not rep.violations:
        rep.violation("proof", rep.proof_broken, dict(broken=rep.proof_broken), no_input=True)
    rep.add(further_models=extra_cov)
    rep.add(programs=sum(len(v) for v in per_lang.values()), kotlin_variants=len(kvars), directed_trees=len(fuzz),
            directed_trees_rejected_by_impl=fuzz_crash,
            evaluations=stats["compared"] + fstats["compared"], traces_validated_against_impl=stats["compared"] + fstats["compared"],
            model_impl_mismatches=stats["mismatches"] + fstats["mismatches"], distinct_nontrivial=stats["in_hypotheses"],
            kotlin=stats, directed=fstats,
            exploration_scanners=dict(label="EXPLORATION: regex scanners on the real text of all four translators; not a proof",
                                      per_language=scan, balance_other_languages=bal_other),
            generation_abandoned_after_10s=[list(g) for g in gen_timeouts],
            exceptions=len(crashes), exception_samples=[list(c) for c in crashes[:5]],
            generation_s=round(t_gen, 1), coq_s=round(coq_t[0] if coq_t else 0.0, 1),
            rule="programs of the four languages through generate -> erase -> overwrite; Kotlin: c12_report in Coq per variant "
                 "(text equality, wf, clean, balance of the real text, inventory decision); all languages: scanners on the real text",
            samples=[dict(lang=o.lang, seed=o.seed, stage=o.stage) for o in kvars[:3]],
            trusted_base=C.TRUSTED_BASE_COMMON + [
                "harness/ir2print.py serialiser (fail-closed); tu.is_sam enters the model as a table computed by the real code",
                "the scanners for Java/Groovy/Scala are regular expressions written for this check (exploration)"])
    rep.assumptions = ["Kotlin only is modelled; `clean` (no bracket inside identifiers, literals, type names) is a hypothesis of the "
                       "balance theorem and is evaluated per program; '<' '>' are not balanced in Kotlin text ('->', comparisons)",
                       "the translator-introduced declaration `var y = ` in front of a lambda statement inside a Unit function is not a "
                       "declaration of the program and is not marked"]
    return rep.finish()
