"""C04 -- type overwriting injects exactly one real type error (the fail oracle).

What Coq carries: the exact single-site difference (IR/Diff.v type_changes, proved complete:
it lists exactly the type slots at which two programs differ and None iff something other
than types differs), its classification (IR/Overwrite.v), the declarative subtype relation
with its proved-sound checker (unrelatedness = both directions refuted), hand-written
language-level convertibility tables (widening, boxing, top type), and the reference type
checker (C01) that must report a new error on the mutated program.
Tie: before/after snapshots of the real TypeOverwriting.transform() on generated (and
erased) programs, every candidate the mutation actually picked on this run.
"""
import os
import pickle
import random
import re
import time

import common as C
import tymodel as T
import ir2coq
import progs
import wholeprog as W
import handprogs

WIDEN = {
    "java": {"ByteType": ["ShortType", "IntegerType", "LongType", "FloatType", "DoubleType"],
             "ShortType": ["IntegerType", "LongType", "FloatType", "DoubleType"],
             "CharType": ["IntegerType", "LongType", "FloatType", "DoubleType"],
             "IntegerType": ["LongType", "FloatType", "DoubleType"],
             "LongType": ["FloatType", "DoubleType"], "FloatType": ["DoubleType"]},
    "kotlin": {},
}
WIDEN["groovy"] = dict(WIDEN["java"])
WIDEN["groovy"].update({"IntegerType": ["LongType", "FloatType", "DoubleType", "BigIntegerType", "BigDecimalType"],
                        "LongType": ["FloatType", "DoubleType", "BigIntegerType", "BigDecimalType"],
                        "BigIntegerType": ["BigDecimalType"], "DoubleType": ["BigDecimalType"], "FloatType": ["DoubleType", "BigDecimalType"]})
WIDEN["scala"] = dict(WIDEN["java"])


def lang_rel(L):
    byname = {c.__name__: L.bid[c] for c in L.classes}
    widen, ref = [], []
    for a, bs in WIDEN[L.lang].items():
        for b in bs:
            if a in byname and b in byname:
                widen.append((byname[a], byname[b]))
    if L.lang in ("java", "groovy") and "NumberType" in byname:
        for nm in ("ByteType", "ShortType", "IntegerType", "LongType", "FloatType", "DoubleType", "BigDecimalType", "BigIntegerType"):
            if nm in byname:
                ref.append((byname[nm], byname["NumberType"]))
    return "{| lr_widen := %s; lr_ref := %s; lr_prim_only := %s; lr_top := %d |}" % (
        C.clist(sorted(set(widen)), lambda p: "(%d, %d)" % p), C.clist(sorted(set(ref)), lambda p: "(%d, %d)" % p),
        C.cbool(L.lang == "java"), L.any_bid)


SHAPE = {0: "nothing-changed", 1: "one-site", 2: "several-nodes-differ", 3: "other-type-slot-differs", 4: "not-only-types-differ",
         5: "erased-type-argument-overwritten"}
REL = {0: "unrelated", 1: "new-is-subtype-of-old", 2: "new-is-supertype-of-old", 3: "convertible-at-language-level", 5: "unknown"}


def run(tier, seed, replay=None):
    rep = C.Report("C04", tier, seed, "translation_validation")
    C.setup_repo_import(seed, ["hephaestus.py", "--iterations", "1", "--language", "kotlin"])
    import src.args  # noqa: F401
    from src.transformations.type_erasure import TypeErasure
    from src.transformations.type_overwriting import TypeOverwriting
    from src import utils
    T.emit_generated()
    rows = progs.config_table()
    proof_ok = C.proof_part(rep, "IR/Properties_C04.v", ["Generated/Builtins.vo", "IR/Overwrite.vo", "IR/DiffProofs.vo"],
                            ["IR", "Types", "Generated"])
    langs = {l: T.Lang(l) for l in T.LANGS}
    nper = 8 if tier == "quick" else 400
    items = []
    t0 = time.time()
    crashes = []
    ndir = 24 if tier == "quick" else 600
    work = [(lang, s, False) for lang in T.LANGS for s in range(nper)] + [(lang, s, True) for lang in T.LANGS for s in range(ndir)]
    for lang, s, directed in work:
        L = langs[lang]
        if True:
            sd = C.sub_seed(seed, "c04d" if directed else "c04", lang, s) % (2 ** 31)
            progs.set_cfg(rows[0])
            try:
                if directed:
                    progs.generate_setup(lang, sd)
                    p = handprogs.build(lang, sd)
                else:
                    p = progs.generate(lang, sd)
                if s % 2 == 0:
                    te = TypeErasure(p, lang, None, {"timeout": 600})
                    te.transform()
                    p = te.result()
                before = ir2coq.Ser(L, p)
                n1 = before.prog()
                names1 = dict(before.names)
                to = TypeOverwriting(p, lang, None, {"timeout": 600})
                to.transform()
                p2 = to.result()
                after = ir2coq.Ser(L, p2)
                after.names = dict(names1)          # same identifier numbering on both sides
                after.classes = dict(before.classes)
                after.tvars = dict(before.tvars)
                n2 = after.prog()
            except Exception as e:          # noqa: BLE001
                crashes.append((lang, sd, "%s: %s" % (type(e).__name__, str(e)[:150])))
                continue
            items.append(dict(lang=lang, seed=sd, L=L, n1=n1, n2=n2, ser=after, transformed=bool(to.is_transformed),
                              msg=to.error_injected, erased_first=(s % 2 == 0), directed=directed,
                              pickled=pickle.dumps(p2)))
    t_gen = time.time() - t0
    per = 4
    items.sort(key=lambda it: it['directed'])
    files = []
    hdr = W.HDR.replace("IR.Check", "IR.Check IR.Diff IR.Overwrite")
    for k in range(0, len(items), per):
        chunk = items[k:k + per]
        defs = {}
        body = []
        for j, it in enumerate(chunk):
            L = it["L"]
            defs[L.lang] = "Definition L_%s : lang := %s.\nDefinition LR_%s : lang_rel := %s.\n" % (
                L.lang, W.lang_record(L), L.lang, lang_rel(L))
            ser = it["ser"]
            cn = [(ser.nid(name), cid) for name, cid in ser.classes.items()]
            rw = W.reserved(L.lang)
            kw = [i for s_, i in ser.names.items() if s_ in rw]
            body.append("Definition a%d : node := %s.\nDefinition b%d : node := %s.\nDefinition cn%d : list (nat*nat) := %s.\nDefinition kw%d : list nat := %s.\n"
                        % (j, ir2coq.coq_node(it["n1"]), j, ir2coq.coq_node(it["n2"]), j, C.clist(cn, lambda p_: "(%d, %d)" % p_), j, C.clist(kw)))
        text = hdr + "".join(defs.values()) + "\n".join(body)
        text += "\nEval vm_compute in [%s].\n" % "; ".join(
            "ow_report L_%s LR_%s cn%d bclasses_%s bt_%s array_%s kw%d a%d b%d" % (it["lang"], it["lang"], j, it["lang"], it["lang"], it["lang"], j, j, j)
            for j, it in enumerate(chunk))
        files.append(("c04_%d" % (k // per), text))
    C.clean_cases("c04_")
    res = C.run_case_files(files, timeout=1800)
    for k, (name, _) in zip(range(0, len(items), per), files):
        rc, out = res[name]
        if rc != 0:
            rep.violation("case-file", "case file %s did not evaluate: %s" % (name, out[-500:]), dict(broken=name, log=out[-3000:]), no_input=True)
            continue
        tup = re.findall(r"\((\d+), (\d+), (\d+), (\d+), (\d+)\)", C.parse_eval_outputs(out)[-1])
        for it, t in zip(items[k:k + per], tup):
            it["report"] = tuple(int(x) for x in t)
    C.clean_cases("c04_")
    os.makedirs(os.path.join(C.REPLAYS, "C04"), exist_ok=True)
    hist = {}
    injected = 0
    for it in items:
        if "report" not in it:
            continue
        shape, kind, rel, e0, e1 = it["report"]
        problem = None
        cat = None
        if not it["transformed"]:
            cat = "not-injected"
            if shape != 0:
                problem, cat = "nothing was reported as injected but the program changed (%s)" % SHAPE[shape], "silent-change"
        else:
            injected += 1
            if shape != 1:
                problem, cat = "an error was reported as injected but the difference is: %s" % SHAPE[shape], "shape-" + SHAPE[shape]
            elif e0 != 0:
                cat = "input-not-accepted"       # the reference checker already rejects the input: not judged
            elif rel in (1, 2, 3):
                problem, cat = "the new type is not unrelated to the replaced one: %s" % REL[rel], "related-" + REL[rel]
            elif e1 == 0:
                problem, cat = ("the mutated program is still accepted by the reference checker (relatedness: %s)" % REL[rel],
                                "accepted-" + REL[rel])
            else:
                cat = "ok"
            if it["msg"] is None or " expected but " not in it["msg"] or " found in node " not in it["msg"]:
                problem, cat = "the reported message %r does not name the old type, the new type and the node" % (it["msg"],), "message"
        hist[cat] = hist.get(cat, 0) + 1
        if problem:
            binp = os.path.join(C.REPLAYS, "C04", "prog-%s-%d.bin" % (it["lang"], it["seed"]))
            open(binp, "wb").write(it["pickled"])
            rep.violation(cat, "%s %sseed %d%s: %s [message: %s]" % (it["lang"], "directed program " if it["directed"] else "", it["seed"],
                                                                     " (after erasure)" if it["erased_first"] else "",
                                                                   problem, it["msg"]),
                          dict(lang=it["lang"], seed=it["seed"], directed=it["directed"], erased_first=it["erased_first"], report=it["report"],
                               message=it["msg"], program_bin=binp, shape=cat))
    if not proof_ok and not rep.violations:
        rep.violation("proof", rep.proof_broken, dict(broken=rep.proof_broken), no_input=True)
    rep.add(programs=len(items), directed_programs=sum(1 for it in items if it["directed"]),
            injected_in_directed=sum(1 for it in items if it["directed"] and it["transformed"]), injected=injected, disagreements_checked=sum(v for k, v in hist.items() if k not in ("ok", "not-injected")),
            evaluations=len(items), distinct_nontrivial=injected, category_histogram=hist, exceptions=len(crashes),
            exception_samples=[list(c) for c in crashes[:5]], generation_s=round(t_gen, 1),
            rule="generated programs (every second one erased first) of the four languages, plus directed small programs "
                 "(harness/handprogs.py: deep hierarchies with indirect generic subclasses, equal type arguments of which one is free); TypeOverwriting.transform() is applied and "
                 "the before/after snapshots are compared in Coq: shape of the difference, relatedness of (old, new) by the proved "
                 "reference checker + language-level convertibility tables, typing errors of the reference checker before/after",
            samples=[dict(lang=it["lang"], seed=it["seed"], report=it.get("report"), message=it["msg"]) for it in items[:4]],
            trusted_base=C.TRUSTED_BASE_COMMON + [
                "language-level convertibility (widening/boxing/top) is a hand-written table in harness/c04.py",
                "the reference checker (IR/Check.v) is lenient: an overwrite at a position it cannot type shows up as accepted-*"])
    rep.assumptions = ["candidate nodes / replacement types are those the mutation picked on this run"]
    return rep.finish()
