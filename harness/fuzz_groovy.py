"""Directed stream for the Groovy translator model (coq/IR/PrintGroovy.v): random trees of the
real ast / types classes over groovy_types, with the declarations registered in a real Context
under the namespaces GroovyTranslator computes (classes, functions, lambdas, true_block /
false_block), so that the context- and state-dependent branches are reached: closures (functions
whose parent is neither the program nor a class: `def f = { .. -> .. }` / `Closure<T> f`, with
and without declared return type, primitive return types, type parameters, expression bodies,
no body), Main. prefixes and their suppression by shadowing, blocks as branches of conditionals
(`{ .. }()`) and inside functions declared there, lambdas and function references (` as
FunctionN<..>`, `Main::f`, `(null)::f`), global variables with and without declared type (static
fields of Main), variable / function declarations visited in the global namespace below the top
level (routed to Main), super constructor calls with arguments (translated by a second
GroovyTranslator, white space collapsed), number literals of every class under both values of
_cast_number and always_cast_numbers, arrays, varargs, wildcards, negated type tests, receivers
that are null or print as the empty string, a top-level main.
NOT well-typed programs; the translator does not look at typing.  Everything is drawn from one
random.Random.  Trees the implementation rejects (exceptions) are counted by the caller.
"""


class GFuzz:
    def __init__(self, rng):
        from src.ir import ast, types as tp, groovy_types as gt, context as ctx
        self.ast, self.tp, self.gt, self.ctxmod = ast, tp, gt, ctx
        self.r = rng
        self.n = 0
        self.context = ctx.Context()
        self.classes = []            # (name, type parameters, class_type)
        self.globals_v = []          # names of global variables
        self.globals_f = []          # names of global functions
        self.words = ["x", "foo", "bar", "baz", "qux", "item", "count", "node", "value", "acc"]
        self.prims = [gt.IntegerType(primitive=True), gt.LongType(primitive=True), gt.ShortType(primitive=True),
                      gt.ByteType(primitive=True), gt.FloatType(primitive=True), gt.DoubleType(primitive=True),
                      gt.CharType(primitive=True), gt.BooleanType(primitive=True)]
        self.boxed = [gt.Object, gt.Void, gt.Number, gt.Integer, gt.Short, gt.Long, gt.Byte, gt.Float, gt.Double, gt.Char,
                      gt.String, gt.Boolean, gt.BigDecimal, gt.BigInteger]

    # ------------------------------------------------------------------ names, types
    def name(self, p="v"):
        self.n += 1
        return "%s%s%d" % (p, self.r.choice(self.words), self.n)

    def ty(self, d=0):
        r, tp, gt = self.r, self.tp, self.gt
        c = r.random()
        if c < 0.3 or d > 2:
            return r.choice(self.boxed + [tp.TypeParameter("T"), tp.TypeParameter("U", tp.Invariant, gt.Number)])
        if c < 0.45:
            return r.choice(self.prims)
        if c < 0.6 and self.classes:
            nm, tps, _ = r.choice(self.classes)
            if tps:
                t = tp.ParameterizedType(tp.TypeConstructor(nm, tps), [self.targ(d + 1) for _ in tps])
                if r.random() < 0.4:
                    t.can_infer_type_args = True
                return t
            return tp.SimpleClassifier(nm)
        if c < 0.75:
            return gt.Array.new([self.elem(d + 1) if r.random() < 0.5 else r.choice(self.prims)])
        n = r.randint(0, 2)
        return gt.FunctionType(n).new([self.targ(d + 1) for _ in range(n + 1)])

    def targ(self, d):
        r, tp = self.r, self.tp
        c = r.random()
        if c < 0.12:
            return tp.WildCardType()
        if c < 0.25:
            return tp.WildCardType(self.ty(d), tp.Covariant)
        if c < 0.35:
            return tp.WildCardType(self.ty(d), tp.Contravariant)
        if c < 0.4:
            return tp.WildCardType(tp.WildCardType(self.ty(d), tp.Covariant), tp.Covariant)
        return self.ty(d)

    def elem(self, d):
        """element type of an array: printed with get_type_name directly, which raises on an unbounded wildcard"""
        t = self.targ(d)
        while t.is_wildcard() and t.get_bound_rec() is None:
            t = self.targ(d)
        return t

    def array_ty(self):
        r, gt = self.r, self.gt
        c = r.random()
        if c < 0.35:
            return gt.Array.new([r.choice(self.prims)])
        return gt.Array.new([self.elem(1)])

    # ------------------------------------------------------------------ scopes
    # sc: dict(ns=namespace tuple, vars=[visible variable names], funcs=[names], cls=class name or None)
    def sub(self, sc, name):
        return dict(sc, ns=sc["ns"] + (name,), vars=list(sc["vars"]), funcs=list(sc["funcs"]))

    def some_var(self, sc):
        pool = sc["vars"] + self.globals_v
        if pool and self.r.random() < 0.85:
            return self.r.choice(pool)
        return self.name("u")

    # ------------------------------------------------------------------ statements
    def block(self, d, sc, func_block=None):
        r = self.r
        sc2 = dict(sc, vars=list(sc["vars"]), funcs=list(sc["funcs"]))
        stmts = [self.stmt(d + 1, sc2) for _ in range(r.randint(0, 3))]
        if stmts and isinstance(stmts[-1], self.ast.VariableDeclaration) and r.random() < 0.7:
            stmts.append(self.expr(d + 1, sc2))
        if stmts and func_block is not False and r.random() < 0.4:
            stmts[-1] = self.leaf(sc2)          # the return value of a function block: _cast_number is switched off
        return self.ast.Block(stmts, is_func_block=r.random() < 0.5 if func_block is None else func_block)

    def body(self, d, sc):
        return self.block(d, sc, True) if self.r.random() < 0.6 else self.expr(d + 1, sc)

    def params(self, d, sc_inner):
        r, a = self.r, self.ast
        ps = []
        k = r.randint(0, 2)
        for i in range(k):
            va = i == k - 1 and r.random() < 0.3
            pt = self.array_ty() if va and r.random() < 0.9 else self.ty()
            p = a.ParameterDeclaration(self.name("p"), pt, vararg=va,
                                       default=self.expr(d + 2, sc_inner) if r.random() < 0.15 else None)
            self.context.add_var(sc_inner["ns"], p.name, p)
            sc_inner["vars"].append(p.name)
            ps.append(p)
        return ps

    def tparams(self):
        r, tp = self.r, self.tp
        return [tp.TypeParameter(self.name("T").capitalize(), tp.Invariant,
                                 r.choice([self.ty(1), r.choice(self.prims)]) if r.random() < 0.4 else None)
                for _ in range(r.randint(0, 2))]

    def func(self, d, sc, method=False, name=None):
        r, a = self.r, self.ast
        name = name or self.name("f")
        inner = self.sub(sc, name)
        ps = self.params(d, inner)
        rt = r.choice([self.gt.Void, self.ty(), self.ty(), r.choice(self.prims)])
        abstract = (method and r.random() < 0.25) or r.random() < 0.04
        nested = len(sc["ns"]) > 1 and not method
        f = a.FunctionDeclaration(name, ps, rt, None, a.FunctionDeclaration.CLASS_METHOD if method else a.FunctionDeclaration.FUNCTION,
                                  is_final=r.random() < 0.6, override=r.random() < 0.2,
                                  type_parameters=[] if nested and r.random() < 0.8 else self.tparams())
        self.context.add_func(sc["ns"], name, f)
        sc["funcs"].append(name)
        if not abstract:
            inner["funcs"] = list(sc["funcs"])
            f.body = self.body(d, inner)
        if r.random() < 0.3:
            f.omit_type()
        if len(sc["ns"]) == 1:
            self.globals_f.append(name)
        return f

    def var(self, d, sc, name=None):
        r, a = self.r, self.ast
        t = self.ty()
        name = name or (r.choice(sc["vars"] + self.globals_v) if (sc["vars"] or self.globals_v) and r.random() < 0.08
                        else self.name("v"))
        e = self.expr(d + 1, sc)
        v = a.VariableDeclaration(name, e, is_final=r.random() < 0.5, var_type=t)
        if r.random() < 0.4:
            v.omit_type()
        self.context.add_var(sc["ns"], name, v)
        if len(sc["ns"]) == 1:
            self.globals_v.append(name)
        else:
            sc["vars"].append(name)
        return v

    def stmt(self, d, sc):
        c = self.r.random()
        if c < 0.25:
            return self.var(d, sc)
        if c < 0.37 and d < 4:
            return self.func(d, sc)
        if c < 0.39 and d < 3:
            return self.cls(sc)
        return self.expr(d, sc)

    def lam(self, d, sc):
        r, a = self.r, self.ast
        name = "lambda_%d" % self.n
        self.n += 1
        inner = self.sub(sc, name)
        ps = []
        for _ in range(r.randint(0, 2)):
            p = a.ParameterDeclaration(self.name("p"), self.ty())
            self.context.add_var(inner["ns"], p.name, p)
            inner["vars"].append(p.name)
            ps.append(p)
        rt = r.choice([self.gt.Void, self.ty(), self.ty(), self.ty(), r.choice(self.prims), None if r.random() < 0.1 else self.ty()])
        sig = self.gt.FunctionType(len(ps)).new([p.param_type for p in ps] + [rt if rt is not None else self.gt.Object])
        lam = a.Lambda(name, ps, rt, None, sig)
        self.context.add_lambda(sc["ns"], name, lam)
        lam.body = self.body(d, inner)
        return lam

    def leaf(self, sc):
        r, a, gt = self.r, self.ast, self.gt
        c = r.randint(0, 8)
        if c == 0:
            return a.IntegerConstant(r.randint(-100, 100),
                                     r.choice([gt.Integer, gt.Long, gt.Short, gt.Byte, gt.Number, gt.BigInteger, gt.Object,
                                               gt.LongType(primitive=True), gt.IntegerType(primitive=True),
                                               gt.ShortType(primitive=True), gt.ByteType(primitive=True),
                                               None if r.random() < 0.1 else gt.Integer]))
        if c == 1:
            return a.RealConstant(r.choice(["1.5", "-2.25", "0.0"]),
                                  r.choice([gt.Float, gt.Double, gt.Number, gt.BigDecimal, gt.DoubleType(primitive=True),
                                            gt.FloatType(primitive=True), None if r.random() < 0.1 else gt.Double]))
        if c == 2:
            return a.BooleanConstant(r.choice(["true", "false"]))
        if c == 3:
            return a.CharConstant(r.choice("abcXYZ019 "))
        if c == 4:
            return a.StringConstant(r.choice(self.words + ["two  words", " lead", "trail ", "", "tab\there", "(", "}"]))
        if c == 5:
            return a.BottomConstant(r.choice([self.ty(), self.ty(), None]))
        return a.Variable(self.some_var(sc))

    def args(self, d, sc, lo=0, hi=2):
        return [self.expr(d + 1, sc) for _ in range(self.r.randint(lo, hi))]

    def cond(self, d, sc):
        r, a = self.r, self.ast
        c = r.random()
        if c < 0.3:
            lexpr = a.Variable(self.some_var(sc)) if r.random() < 0.9 else self.expr(d + 2, sc)
            cnd = a.Is(lexpr, self.ty(), r.random() < 0.4)
        else:
            cnd = self.expr(d + 1, sc)
        tsc, fsc = self.sub(sc, "true_block"), self.sub(sc, "false_block")
        tb = self.block(d, tsc, False) if r.random() < 0.6 else self.expr(d + 1, tsc)
        fb = self.block(d, fsc, False) if r.random() < 0.6 else self.expr(d + 1, fsc)
        return a.Conditional(cnd, tb, fb, self.ty())

    def receiver(self, d, sc):
        r, a = self.r, self.ast
        c = r.random()
        if c < 0.15:
            return a.BottomConstant(r.choice([self.ty(), None]))
        if c < 0.2:
            return a.Variable("")          # prints as the empty string where ident is 0: `if receiver:` is false
        return self.expr(d + 1, sc)

    def call(self, d, sc):
        r, a = self.r, self.ast
        c = r.random()
        if c < 0.25 and sc["funcs"]:
            return a.FunctionCall(r.choice(sc["funcs"]), [a.CallArgument(e) for e in self.args(d, sc)], None, [])
        if c < 0.45 and self.globals_f:
            return a.FunctionCall(r.choice(self.globals_f), [a.CallArgument(e) for e in self.args(d, sc)],
                                  self.receiver(d, sc) if r.random() < 0.2 else None, [])
        if c < 0.6 and (sc["vars"] or self.globals_v):
            return a.FunctionCall(self.some_var(sc), [a.CallArgument(e) for e in self.args(d, sc)], None, [],
                                  is_ref_call=r.random() < 0.8)
        cargs = [a.CallArgument(e, self.name("n") if r.random() < 0.2 else None) for e in self.args(d, sc)]
        fc = a.FunctionCall(self.name("call"), cargs, self.receiver(d, sc) if r.random() < 0.6 else None,
                            [self.ty() for _ in range(r.randint(0, 2))], is_ref_call=r.random() < 0.1)
        fc.can_infer_type_args = r.random() < 0.4
        return fc

    def funcref(self, d, sc):
        r, a = self.r, self.ast
        sig = self.gt.FunctionType(1).new([self.ty(), self.ty()]) if r.random() < 0.97 else None
        c = r.random()
        if c < 0.5:
            return a.FunctionReference(self.name("ref"), self.receiver(d, sc), sig)
        pool = list(sc["funcs"]) + self.globals_f + sc.get("methods", [])
        return a.FunctionReference(r.choice(pool) if pool and r.random() < 0.85 else self.name("ref"), None, sig)

    def expr(self, d, sc):
        r, a = self.r, self.ast
        if d > 4 or r.random() < 0.25:
            return self.leaf(sc)
        c = r.randint(0, 17)
        if c == 0:
            n = r.randint(0, 2)
            return a.ArrayExpr(self.array_ty(), n, [self.expr(d + 1, sc) for _ in range(n)])
        if c == 1:
            return a.LogicalExpr(self.expr(d + 1, sc), self.expr(d + 1, sc), r.choice(a.LogicalExpr.ALL_OPERATORS))
        if c == 2:
            return a.EqualityExpr(self.expr(d + 1, sc), self.expr(d + 1, sc), r.choice(a.EqualityExpr.ALL_OPERATORS))
        if c == 3:
            return a.ComparisonExpr(self.expr(d + 1, sc), self.expr(d + 1, sc), r.choice(a.ComparisonExpr.ALL_OPERATORS))
        if c == 4:
            return a.ArithExpr(self.expr(d + 1, sc), self.expr(d + 1, sc), r.choice(a.ArithExpr.ALL_OPERATORS))
        if c in (5, 6):
            return self.cond(d, sc)
        if c == 7:
            return a.Is(a.Variable(self.some_var(sc)) if r.random() < 0.5 else self.expr(d + 1, sc), self.ty(), r.random() < 0.5)
        if c == 8:
            return a.New(self.ty(), self.args(d, sc))
        if c == 9:
            return a.FieldAccess(self.receiver(d, sc), self.name("fld"))
        if c in (10, 11):
            return self.call(d, sc)
        if c == 12:
            return self.funcref(d, sc)
        if c == 13:
            return a.Assignment(self.some_var(sc), self.expr(d + 1, sc), self.receiver(d, sc) if r.random() < 0.4 else None)
        if c in (14, 15):
            return self.lam(d, sc)
        return self.block(d, sc)

    # ------------------------------------------------------------------ declarations
    def cls(self, outer=None):
        r, a, tp = self.r, self.ast, self.tp
        name = self.name("C").capitalize()
        tps = self.tparams()
        ct = r.choice([0, 0, 1, 2])
        ons = outer["ns"] if outer else ("global",)
        sc = dict(ns=ons + (name,), vars=[], funcs=[], cls=name, methods=[])
        supers = []
        for i in range(r.choice([0, 1, 1, 2])):
            c = r.random()
            if not self.classes:
                continue
            if c < 0.9:
                nm, stps, sct = r.choice(self.classes)
                st = (tp.ParameterizedType(tp.TypeConstructor(nm, stps), [self.ty(1) for _ in stps]) if stps
                      else tp.SimpleClassifier(nm))
            elif c < 0.97:
                continue
            else:
                st = r.choice([self.gt.Object, tp.SimpleClassifier(self.name("Unknown").capitalize())])   # KeyError in the translator
                sct = 0
            with_args = r.random() < (0.7 if sct != 1 else 0.1)
            supers.append(a.SuperClassInstantiation(st, self.args(1, sc, 0, 3) if with_args else None))
        fields = []
        for _ in range(r.randint(0, 2)):
            f = a.FieldDeclaration(self.name("fl") if r.random() < 0.9 or not fields else fields[0].name, self.ty(),
                                   is_final=r.random() < 0.5, can_override=r.random() < 0.3, override=r.random() < 0.3)
            self.context.add_var(sc["ns"], f.name, f)
            sc["vars"].append(f.name)
            fields.append(f)
        mnames = [self.name("m") for _ in range(r.randint(0, 3))]
        sc["methods"] = list(mnames)
        funcs = [self.func(1, sc, True, name=m) for m in mnames]
        c = a.ClassDeclaration(name, supers, ct, fields, funcs, is_final=r.random() < 0.5, type_parameters=tps)
        self.context.add_class(ons, name, c)
        self.classes.append((name, tps, ct))
        return c

    def program(self):
        a, r = self.ast, self.r
        p = a.Program(self.context, "groovy")
        top = dict(ns=("global",), vars=[], funcs=[], cls=None)
        for i in range(r.randint(2, 7)):
            c = r.random()
            if c < 0.4:
                self.cls()
            elif c < 0.75:
                self.func(0, top, name="main" if r.random() < 0.15 else None)
            else:
                self.var(0, top)
        return p
