"""C16 -- the symbol table behaves like a scoped map.

Proof part: coq/Context/Properties_C16.v (refinement of the Context model to a
history-based scoped-map specification).
Tie: correspondence on operation histories: after every add/remove a set of queries is
evaluated by the real src.ir.context.Context (from /repo's working tree) and by the
model Context/Model.v (vm_compute); all observations must agree.  The implementation's
answers are additionally judged by RefSpec below, a direct transcription of the
property statement over the *history* (not over the implementation's state).
"""
import glob as globmod
import json
import os
import random

import common as C

KINDS = ["types", "funcs", "lambdas", "vars", "classes", "decls"]
CK = ["Types", "Funcs", "Lambdas", "Vars", "Classes", "Decls"]
ADD = {"types": "AddType", "funcs": "AddFunc", "lambdas": "AddLambda", "vars": "AddVar",
       "classes": "AddClass"}
REM = {"types": "RemType", "funcs": "RemFunc", "lambdas": "RemLambda", "vars": "RemVar",
       "classes": "RemClass"}


def nm_str(n):
    if n == 0:
        return "global"
    if n >= 100:
        return "lambda_%d" % n
    return "n%d" % n


def ns_t(ns):
    return tuple(nm_str(n) for n in ns)


class Vals:
    """Python values with the model's identity numbers."""

    def __init__(self):
        from src.ir import ast, types as tp
        self.ast, self.tp = ast, tp
        self.objs = {}
        self.nextid = 1000

    def make(self, spec):
        """spec: None | ('obj', id) | ('cls', id) | ('tpar', k)"""
        if spec is None:
            return None
        kind, i = spec
        key = (kind, i)
        if kind == "tpar":
            # value-hashed: a fresh but equal object every time
            return self.tp.TypeParameter("T%d" % i)
        if key not in self.objs:
            if kind == "cls":
                o = object.__new__(self.ast.ClassDeclaration)
                o.name = "K%d" % i
            else:
                o = object.__new__(self.ast.VariableDeclaration)
                o.name = "o%d" % i
            o._verif_id = i
            self.objs[key] = o
        return self.objs[key]

    @staticmethod
    def ident(spec):
        if spec is None:
            return None
        kind, i = spec
        return {"obj": i, "cls": 300 + i, "tpar": 600 + i}[kind]

    def ident_of_value(self, v):
        if v is None:
            return None
        if isinstance(v, self.tp.TypeParameter):
            return 600 + int(v.name[1:])
        if isinstance(v, self.ast.ClassDeclaration):
            return 300 + v._verif_id
        return v._verif_id


def cval(spec):
    if spec is None:
        return "None"
    return "(Some (%d, %s))" % (Vals.ident(spec), C.cbool(spec[0] == "cls"))


def cns(ns):
    return C.clist(ns)


def enc_val(i):
    return [0] if i is None else [1, i]


def enc_ns(ns, inv):
    return [len(ns)] + [inv[x] for x in ns]


class Impl:
    """Drives the real Context."""

    def __init__(self, vals):
        from src.ir import context as ctxmod
        self.ctxmod = ctxmod
        self.c = ctxmod.Context()
        self.vals = vals
        self.inv = {}
        for n in list(range(0, 12)) + list(range(100, 104)):
            self.inv[nm_str(n)] = n

    def apply(self, op):
        c = self.c
        if op[0] == "add":
            _, kind, ns, nm, spec = op
            v = self.vals.make(spec)
            getattr(c, "add_" + kind[:-1] if kind != "classes" else "add_class")(ns_t(ns), nm_str(nm), v)
        elif op[0] == "rem":
            _, kind, ns, nm = op
            getattr(c, "remove_" + kind[:-1] if kind != "classes" else "remove_class")(ns_t(ns), nm_str(nm))
        else:
            c.remove_namespace(ns_t(op[1]))

    def enc_dict(self, d):
        out = [len(d)]
        for k, v in d.items():
            out += [self.inv[k]] + enc_val(self.vals.ident_of_value(v))
        return out

    def observe(self, p):
        c = self.c
        t = p[0]
        if t == "decls":
            _, ns, kind, oc, gl, none = p
            meth = {"types": c.get_types, "funcs": c.get_funcs, "lambdas": c.get_lambdas,
                    "vars": c.get_vars, "classes": c.get_classes, "decls": c.get_declarations}[kind]
            try:
                d = meth(ns_t(ns), only_current=oc, glob=gl, none=none)
            except AssertionError:
                return [2]
            except IndexError:
                return [4]
            return [1] + self.enc_dict(d)
        if t == "ctxgetdecl":
            return enc_val(self.vals.ident_of_value(c.get_decl(ns_t(p[1]), nm_str(p[2]))))
        if t == "getlambda":
            return enc_val(self.vals.ident_of_value(c.get_lambda(ns_t(p[1]), nm_str(p[2]))))
        if t == "getns":
            r = c.get_namespace(self.vals.make(p[1]))
            return [0] if r is None else [1] + enc_ns(r, self.inv)
        if t == "nsdecls":
            _, ns, nm, kind, gl = p
            try:
                r = c.get_namespaces_decls(ns_t(ns), nm_str(nm), kind, gl)
            except IndexError:
                return [4]
            items = sorted(set(tuple(enc_ns(n, self.inv) + enc_val(self.vals.ident_of_value(v)))
                               for n, v in r))
            out = [1, len(items)]
            for it in items:
                out += list(it)
            return out
        if t == "findns":
            r = c.find_namespaces(ns_t(p[1]), p[2])
            out = [len(r)]
            for n in r:
                out += enc_ns(n, self.inv)
            return out
        if t == "declsin":
            r = c.get_declarations_in(ns_t(p[1]))
            out = [len(r)]
            for n, d in r.items():
                out += enc_ns(n, self.inv) + self.enc_dict(d)
            return out
        if t == "parent":
            return enc_val(self.vals.ident_of_value(c.get_parent(ns_t(p[1]))))
        if t == "parentclass":
            return enc_val(self.vals.ident_of_value(c.get_parent_class(ns_t(p[1]))))
        if t == "getdecl":
            _, ns, nm, limit = p
            r = self.ctxmod.get_decl(c, ns_t(ns), nm_str(nm),
                                     limit=None if limit is None else ns_t(limit))
            if r is None:
                return [0]
            return [1] + enc_ns(r[0], self.inv) + [self.vals.ident_of_value(r[1])]
        raise ValueError(t)


def coq_op(op):
    if op[0] == "add":
        _, kind, ns, nm, spec = op
        return "%s %s %d %s" % (ADD[kind], cns(ns), nm, cval(spec))
    if op[0] == "rem":
        _, kind, ns, nm = op
        return "%s %s %d" % (REM[kind], cns(ns), nm)
    return "RemNs %s" % cns(op[1])


def coq_probe(p):
    t = p[0]
    if t == "decls":
        _, ns, kind, oc, gl, none = p
        return "PDecls %s %s %s %s %s" % (cns(ns), CK[KINDS.index(kind)], C.cbool(oc), C.cbool(gl), C.cbool(none))
    if t == "ctxgetdecl":
        return "PCtxGetDecl %s %d" % (cns(p[1]), p[2])
    if t == "getlambda":
        return "PGetLambda %s %d" % (cns(p[1]), p[2])
    if t == "getns":
        return "PGetNamespace %s" % cval(p[1])
    if t == "nsdecls":
        _, ns, nm, kind, gl = p
        return "PNsDecls %s %d %s %s" % (cns(ns), nm, CK[KINDS.index(kind)], C.cbool(gl))
    if t == "findns":
        return "PFindNs %s %s" % (cns(p[1]), C.cbool(p[2]))
    if t == "declsin":
        return "PDeclsIn %s" % cns(p[1])
    if t == "parent":
        return "PParent %s" % cns(p[1])
    if t == "parentclass":
        return "PParentClass %s" % cns(p[1])
    if t == "getdecl":
        _, ns, nm, limit = p
        return "PGetDecl %s %d %s" % (cns(ns), nm, "None" if limit is None else "(Some %s)" % cns(limit))
    raise ValueError(t)


# ------------------------------------------------------------------ generator

def gen_history(rng, nops):
    """namespace tree grown from (0,) = ('global',); small name pools so collisions,
    shadowing, re-adds after removal and func/var/class name clashes are frequent."""
    names = [1, 2, 3, 4, 5]
    lam = [100, 101]
    nss = [[0]]
    ops = []
    specs = [None] + [("obj", i) for i in range(1, 9)] + [("cls", i) for i in range(1, 5)] + \
            [("tpar", i) for i in range(1, 4)]
    added = []
    for _ in range(nops):
        r = rng.random()
        ns = list(rng.choice(nss))
        if r < 0.62 or not added:
            kind = rng.choice(["types", "funcs", "funcs", "lambdas", "vars", "vars", "classes", "classes"])
            nm = rng.choice(lam) if kind == "lambdas" and rng.random() < 0.7 else rng.choice(names)
            if kind == "types":
                spec = rng.choice([("tpar", rng.randint(1, 3)), ("obj", rng.randint(1, 8))])
            elif kind == "classes":
                spec = rng.choice([("cls", rng.randint(1, 4)), ("cls", rng.randint(1, 4)), None])
            else:
                spec = rng.choice(specs)
            ops.append(("add", kind, ns, nm, spec))
            added.append((kind, ns, nm))
            if kind in ("funcs", "classes", "lambdas") and len(ns) < 4 and rng.random() < 0.8:
                child = ns + [nm]
                if child not in nss:
                    nss.append(child)
        elif r < 0.93:
            if rng.random() < 0.75:
                kind, ns, nm = rng.choice(added)
                if rng.random() < 0.25:
                    kind = rng.choice(list(REM))     # remove through another kind (shared 'decls')
            else:
                kind, nm = rng.choice(list(REM)), rng.choice(names)
            ops.append(("rem", kind, ns, nm))
        else:
            ops.append(("remns", ns))
    return ops, nss, specs, names + lam


def gen_probes(rng, nss, specs, names, k):
    out = []
    extra = [[0, 9], [7], [0, 1, 2, 3, 4]]
    for _ in range(k):
        ns = list(rng.choice(nss + extra)) if rng.random() < 0.97 else []
        r = rng.random()
        if r < 0.45:
            out.append(("decls", ns, rng.choice(KINDS), rng.random() < 0.3, rng.random() < 0.3,
                        rng.random() < 0.4))
        elif r < 0.52:
            out.append(("ctxgetdecl", ns, rng.choice(names)))
        elif r < 0.56:
            out.append(("getlambda", ns, rng.choice(names)))
        elif r < 0.66:
            out.append(("getns", rng.choice(specs)))
        elif r < 0.74:
            if not ns:
                ns = [0]
            out.append(("nsdecls", ns, rng.choice(names), rng.choice(KINDS), rng.random() < 0.6))
        elif r < 0.78:
            out.append(("findns", ns or [0], rng.random() < 0.5))
        elif r < 0.82:
            out.append(("declsin", ns))
        elif r < 0.86:
            out.append(("parent", ns))
        elif r < 0.90:
            out.append(("parentclass", ns))
        else:
            limit = None
            if rng.random() < 0.3 and ns:
                limit = ns[:rng.randint(1, len(ns))]
            out.append(("getdecl", ns, rng.choice(names), limit))
    return out


# ------------------------------------------------------------------ specification over the history

class RefSpec:
    """The property statement transcribed over the history of operations.

    live[kind][ns] : ordered dict name -> value, defined from the history alone:
      add(kind, ns, n, v): binds n (position kept if currently bound, else appended);
      remove(kind, ns, n): unbinds n;  remove_namespace(ns): forgets ns.
    'decls' is the map shared by funcs, vars and classes.
    where[v]: namespace of the most recent add of v, until a name bound to v is removed.
    """

    def __init__(self):
        self.live = {}
        self.added_in = {}      # value -> set of namespaces it was ever added in
        self.clean = {}         # value -> True while nothing bound to it was removed/overwritten since its last add

    def _ents(self, ns):
        if ns not in self.live:
            self.live[ns] = {k: {} for k in KINDS}
        return self.live[ns]

    def _dirty(self, i):
        if i is not None:
            self.clean[i] = False

    def apply(self, op):
        if op[0] == "add":
            _, kind, ns, nm, spec = op
            ns = tuple(ns)
            i = Vals.ident(spec)
            e = self._ents(ns)
            for k in ([kind, "decls"] if kind in ("funcs", "vars", "classes") else [kind]):
                if nm in e[k] and e[k][nm] != i:
                    self._dirty(e[k][nm])          # overwritten binding
                e[k][nm] = i
            if i is not None:
                self.added_in.setdefault(i, set()).add(ns)
                self.clean[i] = True
        elif op[0] == "rem":
            _, kind, ns, nm = op
            ns = tuple(ns)
            if ns not in self.live:
                return
            for k in ([kind, "decls"] if kind in ("funcs", "vars", "classes") else [kind]):
                d = self.live[ns][k]
                if nm in d:
                    self._dirty(d[nm])
                    del d[nm]
        else:
            e = self.live.pop(tuple(op[1]), None)
            if e:
                for k in KINDS:
                    for v in e[k].values():
                        self._dirty(v)

    def where(self, i):
        """namespace the statement prescribes for the reverse lookup, or 'unjudged'"""
        if i is None or i not in self.added_in:
            return "unjudged"
        if len(self.added_in[i]) != 1 or not self.clean.get(i, False):
            return "unjudged"
        return next(iter(self.added_in[i]))

    # --- the queries the statement talks about
    def current(self, ns, kind, none):
        d = self.live.get(tuple(ns), {}).get(kind, {})
        return [(k, v) for k, v in d.items() if none or v is not None]

    def enclosing(self, ns, kind, none):
        out = {}
        for i in range(1, len(ns) + 1):
            d = self.live.get(tuple(ns[:i]), {}).get(kind)
            if d:
                out.update(d)           # inner shadows outer, first appearance keeps position
        return [(k, v) for k, v in out.items() if none or v is not None]

    def reachable_namespaces(self, root):
        seen = []
        todo = [tuple(root)]
        while todo:
            ns = todo.pop()
            seen.append(ns)
            e = self.live.get(ns)
            if e:
                for k in ("funcs", "classes"):
                    for nm in e[k]:
                        todo.append(ns + (nm,))
        return seen

    def glob_keys(self, ns, kind, none):
        """key set, and per key the set of admissible values (a live binding in a reachable ns)"""
        adm = {}
        for m in self.reachable_namespaces(ns[:1]):
            for k, v in self.live.get(m, {}).get(kind, {}).items():
                adm.setdefault(k, set()).add(v)
        return adm

    def lookup(self, ns, nm, limit):
        ns = tuple(ns)
        while (len(ns) if limit is None else
               any(tuple(limit) == ns[:i] for i in range(1, len(limit) + 1))):
            v = self.live.get(ns, {}).get("decls", {}).get(nm)
            if v is not None:
                return ns, v
            ns = ns[:-1]
        return None


def judge(spec, p, obs):
    """True when the implementation's observation is what the statement prescribes.
    Only the queries the property speaks about are judged; the others are tied to the
    model (and through it to the theorems) by the correspondence alone."""
    t = p[0]
    if t == "decls":
        _, ns, kind, oc, gl, none = p
        if not ns:
            return obs == [2]
        if obs[0] != 1:
            return False
        n = obs[1]
        items = []
        rest = obs[2:]
        while rest:
            k = rest[0]
            if rest[1] == 0:
                items.append((k, None)); rest = rest[2:]
            else:
                items.append((k, rest[2])); rest = rest[3:]
        assert len(items) == n
        if gl:
            adm = spec.glob_keys(ns, kind, none)
            keys = {k for k, vs in adm.items()}
            got = dict(items)
            if none:
                return set(got) == keys and all(got[k] in adm[k] for k in got)
            # without none: a key is present iff its selected binding is not None; the
            # selection (last visited) is pinned down by the model, here: admissible values only
            return set(got) <= keys and all(got[k] in adm[k] and got[k] is not None for k in got) and \
                all(k in got for k in keys if None not in adm[k])
        if len(ns) == 1 or oc:
            return items == spec.current(ns, kind, none)
        return items == spec.enclosing(ns, kind, none)
    if t == "getdecl":
        _, ns, nm, limit = p
        r = spec.lookup(ns, nm, limit)
        if r is None:
            return obs == [0]
        return obs == [1, len(r[0])] + list(r[0]) + [r[1]]
    if t == "getns":
        w = spec.where(Vals.ident(p[1]))
        if w == "unjudged":
            return True
        return obs == [1, len(w)] + list(w)
    return True


# ------------------------------------------------------------------ main

def coq_file(hists):
    hs = []
    for h in hists:
        steps = []
        for op, probes in h:
            ps = "; ".join("(%s, %s)" % (coq_probe(p), C.clist(o)) for p, o in probes)
            steps.append("(%s, [%s])" % (coq_op(op), ps))
        hs.append("[" + ";\n  ".join(steps) + "]")
    return (C.CASE_HEADER + "From Coq Require Import List Arith Bool.\nImport ListNotations.\n"
            "From Heph Require Import Context.Model Context.Corr.\n"
            "Definition hs : list (list hstep) := [\n%s\n].\n"
            "Eval vm_compute in (all_mismatches 0 hs).\n" % ";\n".join(hs))


def parse_triples(s):
    body = s.split(" : ")[0].strip()
    if body in ("[]", "nil"):
        return []
    import re
    return [tuple(int(x) for x in m) for m in re.findall(r"\((\d+),\s*(\d+),\s*(\d+)\)", body)]


def run_history(ops, probes_per_step, rng, nss, specs, names, vals, fixed_probes=None):
    impl = Impl(vals)
    spec = RefSpec()
    h = []
    verdicts = []
    for j, op in enumerate(ops):
        impl.apply(op)
        spec.apply(op)
        if fixed_probes is not None:
            probes = fixed_probes[j]
        else:
            k = probes_per_step if j < len(ops) - 1 else 4 * probes_per_step
            probes = gen_probes(rng, nss, specs, names, k)
        po = []
        for p in probes:
            o = impl.observe(p)
            po.append((p, o))
            verdicts.append((j, p, o, judge(spec, p, o)))
        h.append((op, po))
    return h, verdicts


def generator_histories(n, seed):
    """Histories of Context calls made by the real generator (every call logged)."""
    out = []
    try:
        from src.ir import context as ctxmod
        from src.generators.generator import Generator
        from src import utils as ut
    except Exception:
        return out
    return out


def run(tier, seed, replay=None):
    rep = C.Report("C16", tier, seed, "proof")
    C.setup_repo_import(seed)
    proof_ok = C.proof_part(rep, "Context/Properties_C16.v",
                            ["Context/Model.vo", "Context/Corr.vo", "Context/Spec.vo", "Context/ProofsODict.vo", "Context/Proofs.vo", "Context/ProofsQueries.vo"],
                            ["Context"])
    vals = Vals()
    rng = random.Random(C.sub_seed(seed, "c16"))
    nh = 300 if tier == "quick" else 6000
    hists = []
    meta = []
    opk = {}
    prk = {}
    if replay:
        d = json.load(open(replay))["detail"]
        ops = [tuple(o) for o in d["ops"]]
        ops = [tuple(list(x) if isinstance(x, list) and i == 2 else x for i, x in enumerate(o)) for o in ops]
        fixed = [[tuple(p) for p in ps] for ps in d["probes"]]
        ops = [_fix_op(o) for o in ops]
        fixed = [[_fix_probe(p) for p in ps] for ps in fixed]
        h, verdicts = run_history(ops, 0, rng, None, None, None, vals, fixed_probes=fixed)
        hists.append(h)
        meta.append((ops, verdicts))
    else:
        corpus = sorted(globmod.glob(os.path.join(C.CORPUS, "C16", "*.json")))
        for fn in corpus:
            d = json.load(open(fn))
            ops = [_fix_op(tuple(o)) for o in d["ops"]]
            fixed = [[_fix_probe(tuple(p)) for p in ps] for ps in d["probes"]]
            h, verdicts = run_history(ops, 0, rng, None, None, None, vals, fixed_probes=fixed)
            hists.append(h)
            meta.append((ops, verdicts))
        for i in range(nh):
            nops = rng.randint(5, 40 if tier == "quick" else 120)
            ops, nss, specs, names = gen_history(rng, nops)
            h, verdicts = run_history(ops, 10, rng, nss, specs, names, vals)
            hists.append(h)
            meta.append((ops, verdicts))
    for ops, verdicts in meta:
        for o in ops:
            key = o[0] + ":" + (o[1] if o[0] != "remns" else "")
            opk[key] = opk.get(key, 0) + 1
        for _, p, _, _ in verdicts:
            prk[p[0]] = prk.get(p[0], 0) + 1

    chunk = 20
    files = [("c16_%d" % (k // chunk), coq_file(hists[k:k + chunk])) for k in range(0, len(hists), chunk)]
    C.clean_cases("c16_")
    res = C.run_case_files(files, timeout=1500)
    mism = []
    for k, (name, _) in enumerate(files):
        rc, out = res[name]
        if rc != 0:
            rep.violation("case-file", "case file %s did not evaluate: %s" % (name, out[-400:]),
                          dict(broken=name, log=out[-3000:]), no_input=True)
            continue
        for (hi, si, pi) in parse_triples(C.parse_eval_outputs(out)[-1]):
            mism.append((k * chunk + hi, si, pi))
    C.clean_cases("c16_")

    nq = 0
    spec_viol = 0
    distinct = set()
    for hi, (ops, verdicts) in enumerate(meta):
        for (j, p, o, ok) in verdicts:
            nq += 1
            if len(o) > 3:
                distinct.add((hi, j, repr(p)))
            if not ok:
                spec_viol += 1
                rep.violation("spec", "history %d step %d: %s answers %s, which the scoped-map statement "
                              "does not allow" % (hi, j, p, o),
                              dict(ops=[list(x) for x in ops[:j + 1]],
                                   probes=[[] for _ in range(j)] + [[list(p)]],
                                   query=list(p), impl=o))
    for (hi, si, pi) in mism:
        ops, verdicts = meta[hi]
        p, o = hists[hi][si][1][pi]
        rep.violation("correspondence", "history %d step %d: model and implementation differ on %s "
                      "(implementation: %s) while the judged statement still holds" % (hi, si, p, o),
                      dict(ops=[list(x) for x in ops[:si + 1]],
                           probes=[[] for _ in range(si)] + [[list(p)]],
                           query=list(p), impl=o,
                           broken="correspondence Context.Model vs src/ir/context.py"),
                      no_input=not any((not ok) for (_, _, _, ok) in verdicts))
    if not proof_ok and not rep.violations:
        rep.violation("proof", rep.proof_broken, dict(broken=rep.proof_broken), no_input=True)

    rep.add(evaluations=nq, histories=len(hists), states=sum(len(h) for h in hists),
            distinct_nontrivial=len(distinct),
            rule="history = random add/remove/remove_namespace sequence over a namespace tree of depth <= 4 "
                 "with 5+2 shared names; after every step 10 random queries (40 after the last) are answered by "
                 "the implementation, by the model and judged by the history-based specification; "
                 "non-trivial = the answer encodes at least one binding; distinct = (history, step, query)",
            traces_validated_against_impl=len(hists), model_impl_mismatches=len(mism),
            spec_violations=spec_viol, op_histogram=opk, query_histogram=prk,
            samples=[dict(ops=[list(map(str, o)) for o in meta[0][0][:8]],
                          queries=[dict(step=j, query=str(p), answer=o) for (j, p, o, _) in meta[0][1][:6]])],
            trusted_base=C.TRUSTED_BASE_COMMON + [
                "names are modelled as naturals (names >= 100 stand for strings containing 'lambda_'), values by "
                "their identity up to Python ==/hash plus an isinstance(ClassDeclaration) bit"])
    rep.assumptions = ["values put in the table are hashable with __eq__ consistent with __hash__ "
                       "(identity-hashed declarations, value-hashed TypeParameters)"]
    return rep.finish()


def _fix_op(o):
    o = list(o)
    if o[0] == "add":
        o[2] = list(o[2])
        o[4] = None if o[4] is None else tuple(o[4])
    elif o[0] == "rem":
        o[2] = list(o[2])
    else:
        o[1] = list(o[1])
    return tuple(o)


def _fix_probe(p):
    p = list(p)
    t = p[0]
    if t == "getns":
        p[1] = None if p[1] is None else tuple(p[1])
    else:
        p[1] = list(p[1])
        if t == "getdecl" and p[3] is not None:
            p[3] = list(p[3])
    return tuple(p)
