"""C19 -- graph queries agree with their textbook definitions.

Proof part: coq/Graph/Properties_C19.v (theorems over the model Graph/Model.v).
Tie: correspondence of src/graph_utils.py (imported from /repo's working tree) with the
model on the same graphs: exhaustive small scopes + seeded random graphs, evaluated by
vm_compute inside coqc.  A disagreement is classified with the executable specification
(spec_* below, an independent transitive-closure implementation) applied to the
implementation's output.
"""
import itertools
import random
from collections import namedtuple

import common as C

Edge = namedtuple("Edge", ["target"])
FN = ["reachable", "bi_reachable", "connected", "none_reachable", "none_connected",
      "find_all_paths", "find_longest_paths", "find_all_reachable", "find_all_bi_reachable",
      "find_all_connected", "find_sources", "dfs"]


# ------------------------------------------------------------------ implementation side

def impl_eval(gu, g, s, ds):
    """g: list of (key, [targets]); returns the 'expected' record as a python dict."""
    G = {k: list(v) for k, v in g}
    GE = {k: [Edge(t) for t in v] for k, v in g}
    r = {}
    r["reach"] = [bool(gu.reachable(G, s, d)) for d in ds]
    r["bi"] = [bool(gu.bi_reachable(G, s, d)) for d in ds]
    r["conn"] = [bool(gu.connected(G, s, d)) for d in ds]
    r["nreach"] = [bool(gu.none_reachable(G, s, d)) for d in ds]
    r["nconn"] = [bool(gu.none_connected(G, s, d)) for d in ds]
    r["paths"] = [list(p) for p in gu.find_all_paths(G, s)]
    r["longest"] = [list(p) for p in gu.find_longest_paths(G, s)]
    r["allreach"] = sorted(gu.find_all_reachable(G, s))
    r["allbi"] = sorted(gu.find_all_bi_reachable(G, s))
    r["allconn"] = sorted(gu.find_all_connected(G, s))
    try:
        r["sources"] = list(gu.find_sources(G, s))
    except KeyError:
        r["sources"] = None
    r["dfs"] = sorted(gu.dfs(GE, s))
    return r


class V:
    """A vertex object that is equal to every other V of the same number but is a distinct object each time it is made
    (the code may only use == and hashing on vertices: the callers pass equal-but-not-identical nodes)."""
    __slots__ = ("n",)

    def __init__(self, n):
        self.n = n

    def __eq__(self, o):
        return isinstance(o, V) and o.n == self.n

    def __hash__(self):
        return hash(("v", self.n))

    def __repr__(self):
        return "V%d" % self.n


def _snap(G):
    return [(k.n, type(adj).__name__, sorted(t.n for t in adj) if isinstance(adj, (set, frozenset)) else [t.n for t in adj])
            for k, adj in G.items()]


def impl_eval_hist(gu, g0, g, s, ds, use_sets, problems):
    """The same queries, but on ONE long-lived graph object: built as g0, queried once, re-wired in place into g (same dict,
    same key objects, same adjacency containers), and queried again with freshly made (equal, not identical) vertex
    objects; after every call the graph must be what it was before the call.  Returns (graph as the queries saw it, record)."""
    mk = (lambda ts: set(V(t) for t in ts)) if use_sets else (lambda ts: [V(t) for t in ts])
    G = {V(k): mk(ts) for k, ts in g0}
    GE = {V(k): [Edge(V(t)) for t in ts] for k, ts in g0}

    def q(fn, *a):
        before, before_e = _snap(G), [(k.n, [e.target.n for e in es]) for k, es in GE.items()]
        r = fn(*a)
        if _snap(G) != before or [(k.n, [e.target.n for e in es]) for k, es in GE.items()] != before_e:
            problems.append("%s modified the graph it was asked about: %s -> %s" % (fn.__name__, before, _snap(G)))
        return r

    def everything():
        r = {}
        r["reach"] = [bool(q(gu.reachable, G, V(s), V(d))) for d in ds]
        r["bi"] = [bool(q(gu.bi_reachable, G, V(s), V(d))) for d in ds]
        r["conn"] = [bool(q(gu.connected, G, V(s), V(d))) for d in ds]
        r["nreach"] = [bool(q(gu.none_reachable, G, V(s), V(d))) for d in ds]
        r["nconn"] = [bool(q(gu.none_connected, G, V(s), V(d))) for d in ds]
        r["paths"] = [[v.n for v in p] for p in q(gu.find_all_paths, G, V(s))]
        r["longest"] = [[v.n for v in p] for p in q(gu.find_longest_paths, G, V(s))]
        r["allreach"] = sorted(v.n for v in q(gu.find_all_reachable, G, V(s)))
        r["allbi"] = sorted(v.n for v in q(gu.find_all_bi_reachable, G, V(s)))
        r["allconn"] = sorted(v.n for v in q(gu.find_all_connected, G, V(s)))
        try:
            r["sources"] = [v.n for v in q(gu.find_sources, G, V(s))]
        except KeyError:
            r["sources"] = None
        r["dfs"] = sorted(v.n for v in q(gu.dfs, GE, V(s)))
        return r
    everything()
    # in-place re-wiring: same dict object, same key objects, same containers
    new = dict(g)
    for k in list(G):
        adj = G[k]
        if use_sets:
            adj.clear()
            adj.update(V(t) for t in new[k.n])
        else:
            adj[:] = [V(t) for t in new[k.n]]
        GE[k][:] = [Edge(V(t)) for t in new[k.n]]
    r = everything()
    seen = [(k.n, [t.n for t in adj]) for k, adj in G.items()]      # iteration order of the containers = the model's edge order
    return seen, r


# ------------------------------------------------------------------ executable specification

def spec_closure(g, s, keyed):
    """vertices reachable from s by >= 0 edges; keyed: only edges between keys count."""
    G = dict(g)
    seen = {s}
    todo = [s]
    while todo:
        u = todo.pop()
        if u not in G:
            continue
        for v in G[u]:
            if keyed and v not in G:
                continue
            if v not in seen:
                seen.add(v)
                todo.append(v)
    return seen


def spec_uclosure(g, s):
    G = dict(g)
    und = {k: set() for k in G}
    for u, vs in G.items():
        for v in vs:
            if v in G:
                und[u].add(v)
                und[v].add(u)
    seen = {s}
    todo = [s]
    while todo:
        u = todo.pop()
        for v in und.get(u, ()):
            if v not in seen:
                seen.add(v)
                todo.append(v)
    return seen


def spec_simple_paths(g, s):
    G = dict(g)
    out = []

    def go(path):
        out.append(list(path))
        u = path[-1]
        for v in G.get(u, []) if u in G else []:
            if v not in path:
                go(path + [v])
    go([s])
    return out


def spec_eval(g, s, ds):
    """What the textbook definitions prescribe (sets as sorted lists)."""
    G = dict(g)
    r = {"multi": any(len(set(t)) != len(t) for _, t in g)}
    kc = spec_closure(g, s, True) if s in G else set()
    r["reach"] = [d in kc for d in ds]
    r["bi"] = [(d in kc) or (d in G and s in spec_closure(g, d, True)) for d in ds]
    uc = spec_uclosure(g, s) if s in G else set()
    r["conn"] = [d in uc for d in ds]
    sp = spec_simple_paths(g, s)
    r["paths_set"] = sorted(set(map(tuple, sp)))
    allp = set(map(tuple, sp))
    r["longest_set"] = sorted(p for p in allp
                              if not any(len(q) == len(p) + 1 and q[:len(p)] == p for q in allp))
    r["allreach"] = sorted(spec_closure(g, s, False))
    r["allbi"] = sorted(n for n in G if (s in G and n in kc) or (s in spec_closure(g, n, True) and s in G))
    r["allconn"] = sorted(n for n in G if n in uc)
    if s in G:
        preds = {k: [u for u in G if k in G[u]] for k in G}
        r["sources_set"] = sorted(v for v in G if not preds[v] and s in spec_closure(g, v, True))
    else:
        r["sources_set"] = None
    r["dfs"] = sorted(v for v in spec_closure(g, s, False) if v != s) if True else None
    # dfs from s: vertices reachable by >= 1 edge, except s itself
    return r


def spec_judge(fn, impl, spec):
    """True when the implementation output satisfies the definition for function fn."""
    if fn in ("reachable", "bi_reachable", "connected"):
        k = {"reachable": "reach", "bi_reachable": "bi", "connected": "conn"}[fn]
        return impl[k] == spec[k]
    if fn == "find_all_paths":
        return sorted(set(map(tuple, impl["paths"]))) == spec["paths_set"] and \
            (spec["multi"] or len(set(map(tuple, impl["paths"]))) == len(impl["paths"]))
    if fn == "find_longest_paths":
        return sorted(set(map(tuple, impl["longest"]))) == spec["longest_set"] and \
            (spec["multi"] or len(set(map(tuple, impl["longest"]))) == len(impl["longest"]))
    if fn == "find_all_reachable":
        return impl["allreach"] == spec["allreach"]
    if fn == "find_all_bi_reachable":
        return impl["allbi"] == spec["allbi"]
    if fn == "find_all_connected":
        return impl["allconn"] == spec["allconn"]
    if fn == "find_sources":
        if impl["sources"] is None:
            return spec["sources_set"] is None
        return spec["sources_set"] is not None and sorted(impl["sources"]) == spec["sources_set"] \
            and len(set(impl["sources"])) == len(impl["sources"])
    if fn == "dfs":
        return impl["dfs"] == spec["dfs"]
    return True  # none_reachable / none_connected are compositions, judged via the model only


# ------------------------------------------------------------------ generators

def all_graphs(n):
    verts = list(range(n))
    subsets = [[v for v in verts if (m >> v) & 1] for m in range(1 << n)]
    for combo in itertools.product(range(1 << n), repeat=n):
        yield [(u, subsets[combo[u]]) for u in verts]


def random_graph(rng, malformed):
    while True:
        g = random_graph1(rng, malformed)
        # keep the number of simple paths small (dense graphs have factorially many)
        if max(len(spec_simple_paths(g, k)) for k, _ in g) <= 250:
            return g


def random_graph1(rng, malformed):
    n = rng.randint(4, 9)
    verts = list(range(n))
    rng.shuffle(verts)
    dens = rng.choice([0.08, 0.15, 0.2, 0.3])
    g = []
    for u in verts:
        tg = [v for v in verts if rng.random() < dens]
        rng.shuffle(tg)
        if malformed:
            if rng.random() < 0.4:
                tg.append(rng.randint(n, n + 2))          # non-key target
            if tg and rng.random() < 0.3:
                tg.append(rng.choice(tg))                 # duplicate edge
            rng.shuffle(tg)
        g.append((u, tg))
    if rng.random() < 0.3:
        iso = rng.choice(verts)                            # isolate a vertex
        g = [(u, [] if u == iso else [v for v in t if v != iso]) for u, t in g]
    return g


# ------------------------------------------------------------------ Coq side

def coq_case(g, s, ds, e):
    cl = C.clist
    gl = cl(g, lambda kv: "(%d, %s)" % (kv[0], cl(kv[1])))
    ex = ("{| e_reach := %s; e_bi := %s; e_conn := %s; e_nreach := %s; e_nconn := %s; "
          "e_paths := %s; e_longest := %s; e_allreach := %s; e_allbi := %s; e_allconn := %s; "
          "e_sources := %s; e_dfs := %s |}") % (
        cl(e["reach"], C.cbool), cl(e["bi"], C.cbool), cl(e["conn"], C.cbool),
        cl(e["nreach"], C.cbool), cl(e["nconn"], C.cbool),
        cl(e["paths"], cl), cl(e["longest"], cl), cl(e["allreach"]), cl(e["allbi"]),
        cl(e["allconn"]), C.copt(e["sources"], cl), cl(e["dfs"]))
    return "(%s, %d, %s, %s)" % (gl, s, cl(ds), ex)


def coq_file(cases):
    body = ";\n".join(coq_case(*c) for c in cases)
    return (C.CASE_HEADER +
            "From Coq Require Import List Arith Bool.\nImport ListNotations.\n"
            "From Heph Require Import Graph.Model Graph.Corr.\n"
            "Definition cases : list case := [\n%s\n].\n"
            "Eval vm_compute in (mismatches 0 cases).\n" % body)


# ------------------------------------------------------------------ main

def run(tier, seed, replay=None):
    rep = C.Report("C19", tier, seed, "proof")
    C.setup_repo_import(seed)
    from src import graph_utils as gu

    proof_ok = C.proof_part(rep, "Graph/Properties_C19.v",
                            ["Graph/Model.vo", "Graph/Spec.vo", "Graph/Corr.vo", "Graph/Proofs.vo", "Graph/ProofsPaths.vo", "Graph/ProofsDfs.vo"],
                            ["Graph"])

    rng = random.Random(C.sub_seed(seed, "c19"))
    cases = []
    hist = {"exhaustive_le3": 0, "exhaustive_4": 0, "random": 0, "malformed": 0, "corpus": 0}

    if replay:
        import json
        d = json.load(open(replay))["detail"]
        g = [(k, v) for k, v in d["graph"]]
        cases.append((g, d["s"], d["ds"]))
    else:
        # corpus first
        import glob, json, os
        for fn in sorted(glob.glob(os.path.join(C.CORPUS, "C19", "*.json"))):
            d = json.load(open(fn))
            cases.append(([(k, v) for k, v in d["graph"]], d["s"], d["ds"]))
            hist["corpus"] += 1
        for n in (1, 2, 3):
            for g in all_graphs(n):
                for s in range(n + 1):           # n = a vertex that is not a key
                    cases.append((g, s, list(range(n + 1))))
                    hist["exhaustive_le3"] += 1
        if tier == "thorough":
            for g in all_graphs(4):
                for s in range(4):
                    cases.append((g, s, list(range(5))))
                    hist["exhaustive_4"] += 1
        nrand = 2000 if tier == "quick" else 40000
        for i in range(nrand):
            malformed = (i % 4 == 3)
            g = random_graph(rng, malformed)
            ks = [k for k, _ in g]
            s = rng.choice(ks) if rng.random() < 0.95 else max(ks) + 5
            ds = rng.sample(ks, min(3, len(ks))) + [max(ks) + 1]
            cases.append((g, s, ds))
            hist["malformed" if malformed else "random"] += 1

    # implementation + spec
    full = []
    spec_fail = []
    sizes = {}
    for idx, (g, s, ds) in enumerate(cases):
        e = impl_eval(gu, g, s, ds)
        full.append((g, s, ds, e))
        sizes[len(g)] = sizes.get(len(g), 0) + 1
    # history stream: one long-lived graph object per case, queried, re-wired in place (same numbers of vertices and edges
    # where possible) and queried again through equal-but-not-identical vertex objects; list and set adjacencies
    problems = []
    nhist = 0
    hrng = random.Random(C.sub_seed(seed, "c19hist"))
    for idx, (g, s, ds) in enumerate(list(cases)):
        if replay or len(g) < 2 or (idx % 3 and len(g) <= 3):
            continue
        if any(len(set(t)) != len(t) for _, t in g):
            continue                                    # multigraphs cannot be given as sets
        ks = [k for k, _ in g]
        g0 = [(k, list(t)) for k, t in g]
        edges = [(i, j) for i, (_, t) in enumerate(g0) for j in range(len(t))]
        if edges:
            i, j = hrng.choice(edges)                   # the graph BEFORE: one edge pointed somewhere else
            cand = [v for v in ks if v not in g0[i][1]]
            if cand:
                g0[i][1][j] = hrng.choice(cand)
        use_sets = bool(hrng.getrandbits(1))
        before = len(problems)
        gseen, e = impl_eval_hist(gu, g0, g, s, ds, use_sets, problems)
        for msg in problems[before:before + 1]:
            rep.violation("purity", "graph %s (as %s), start %d: %s" % (g, "sets" if use_sets else "lists", s, msg),
                          dict(graph=[[k, t] for k, t in g], s=s, ds=ds, before=[[k, t] for k, t in g0], sets=use_sets, what=msg))
        full.append((gseen, s, ds, e))
        nhist += 1
    # model, in the kernel
    chunk = 400
    files = []
    for k in range(0, len(full), chunk):
        files.append(("c19_%d" % (k // chunk), coq_file(full[k:k + chunk])))
    C.clean_cases("c19_")
    res = C.run_case_files(files, timeout=1200)
    mism = []
    broken_files = []
    for k, (name, _) in enumerate(files):
        rc, out = res[name]
        if rc != 0:
            broken_files.append((name, out[-800:]))
            continue
        vals = C.parse_eval_outputs(out)
        for code in C.parse_nat_list(vals[-1]):
            mism.append((k * chunk + code // 16, code % 16))
    C.clean_cases("c19_")

    # the property on the implementation: judge every case with the executable spec
    nontrivial = set()
    spec_viol = 0
    for idx, (g, s, ds, e) in enumerate(full):
        spec = spec_eval(g, s, ds)
        if sum(len(t) for _, t in g) >= 2:
            nontrivial.add((tuple((k, tuple(t)) for k, t in g), s))
        for fi, fn in enumerate(FN):
            if not spec_judge(fn, e, spec):
                spec_viol += 1
                detail = dict(function=fn, graph=[[k, t] for k, t in g], s=s, ds=ds, impl=e, spec=spec)
                rep.violation("spec", "%s on graph %s from %d: implementation returns a value its "
                              "definition does not prescribe" % (fn, g, s), detail)
    # correspondence failures that the spec did not explain
    for idx, fi in mism:
        g, s, ds, e = full[idx]
        spec = spec_eval(g, s, ds)
        fn = FN[fi]
        detail = dict(function=fn, graph=[[k, t] for k, t in g], s=s, ds=ds, impl=e, spec=spec,
                      broken="correspondence Graph.Model.%s vs src/graph_utils.py" % fn)
        if spec_judge(fn, e, spec):
            rep.violation("correspondence", "model and implementation of %s differ on %s from %d but the "
                          "implementation still meets the definition there" % (fn, g, s),
                          detail, no_input=True)
        # otherwise already reported above with the failing input
    for name, out in broken_files:
        rep.violation("case-file", "case file %s did not evaluate: %s" % (name, out[-300:]),
                      dict(broken=name, log=out), no_input=True)
    if not proof_ok:
        # a proof obligation broke: failing inputs (if any) were searched above
        if not rep.violations:
            rep.violation("proof", rep.proof_broken, dict(broken=rep.proof_broken), no_input=True)

    rep.add(evaluations=len(full) * len(FN), cases=len(full),
            distinct_nontrivial=len(nontrivial),
            rule="case = (graph, start vertex, destination list); 12 functions evaluated per case by the "
                 "implementation, by the Coq model (vm_compute) and by an independent closure-based "
                 "specification; non-trivial = graph has >= 2 edges; distinct = distinct (graph, start)",
            traces_validated_against_impl=len(full),
            model_impl_mismatches=len(mism), spec_violations=spec_viol,
            exhaustive=(not replay),
            exhaustive_scope="all digraphs (self-loops included) on <= %d vertices, every start vertex "
                             "incl. one non-key, every destination" % (4 if tier == "thorough" else 3),
            input_histogram=hist, graph_size_histogram=sizes, history_cases=nhist, purity_violations=len(problems),
            history_rule="history case = a long-lived graph object built as a neighbour graph (one edge re-targeted), all 12 queries "
                         "evaluated, re-wired IN PLACE into the case's graph, all 12 queries evaluated again with freshly made equal-but-"
                         "not-identical vertex objects (list or set adjacencies); the second answers go through the same model/spec "
                         "comparison; after every call the graph object must be unchanged",
            samples=[dict(graph=full[i][0], s=full[i][1], ds=full[i][2], impl=full[i][3])
                     for i in (0, len(full) // 2, len(full) - 1)],
            trusted_base=C.TRUSTED_BASE_COMMON + [
                "vertices are modelled as naturals (only == and hashing are used on them by the code)",
                "Python recursion limit in dfs/find_all_paths is runtime behaviour outside the model"])
    rep.assumptions = ["graphs are Python dicts (distinct keys) of lists", "see coverage.trusted_base"]
    return rep.finish()
