"""Regenerate the seeded-mutation table of DESIGN.md (section 0.4) from seeded/*/meta.json."""
import glob
import json
import os
import re

V = os.path.dirname(os.path.dirname(os.path.abspath(__file__)))


def main():
    rows = ["| seed | change (first line of the author's note) | quick check | first violation reported |", "|---|---|---|---|"]
    n = caught = 0
    regp = os.path.join(V, "seeded", "REGRESSION.json")
    reg = json.load(open(regp)) if os.path.exists(regp) else {}
    for d in sorted(glob.glob(os.path.join(V, "seeded", "*"))):
        mp = os.path.join(d, "meta.json")
        if not os.path.exists(mp):
            continue
        m = json.load(open(mp))
        desc = (m.get("needs_to_manifest") or "").split("\n")[0].replace("Change: ", "")[:150].replace("|", "/")
        v = (m.get("check_first_violations") or [""])[0].strip()[:110].replace("|", "/")
        ok = m.get("check_rc") == 1
        r = reg.get(os.path.basename(d))
        if r is not None and r.get("applies"):
            ok = bool(r.get("caught"))
            v = (r.get("first") or "").replace("violation:", "").strip()[:110].replace("|", "/") if ok else ""
            if not ok and r.get("caught_by_other"):
                v = "reported by another property's check: " + r["caught_by_other"][:90].replace("|", "/")
        n += 1
        caught += ok
        rows.append("| %s | %s | %s | %s |" % (os.path.basename(d), desc, "caught (exit 1)" if ok else "not reported", v))
    p = os.path.join(V, "DESIGN.md")
    s = open(p).read()
    s = re.sub(r"(<!-- SEED-MATRIX-BEGIN[^\n]*-->\n).*?(<!-- SEED-MATRIX-END -->)",
               lambda mo: mo.group(1) + "\n".join(rows) + "\n" + mo.group(2), s, flags=re.S)
    open(p, "w").write(s)
    print("%d seeds, %d caught" % (n, caught))


if __name__ == "__main__":
    main()
