"""ast.Program -> the printing-oriented tree of coq/IR/PrintGroovy.v (pprogram / pnode / ptype).

One PN per object GroovyTranslator visits (or could visit); the children are exactly
node.children(); the kind carries the attributes groovy.py reads.  Fail-closed: unknown node or
type classes, strings with non-ASCII white space (Python's lstrip and \\s act on code points,
the model on bytes), attributes whose evaluation by the real code raises (is_primitive,
box_type, get_signature, the dict lookups of the number literals: the translator raises too)
raise SerError.

What the model does NOT compute and the serialiser therefore evaluates with the REAL code, on a
pickled copy of the program (so that no oracle call can touch the program under test):
  * per program: the names for which _get_main_prefix's context query holds ('vars' / 'funcs';
    the query starts from the global namespace, it does not depend on the translator's
    namespace) and the classes of context.get_classes(.., glob=True) that are interfaces;
  * per node: Lambda.get_signature(FunctionType(n)) and FunctionReference.get_signature() (the
    type printed after " as "), box_type() of a primitive return type, get_name(),
    is_primitive(), `== gt.Void` and the dict keys of visit_integer_constant /
    visit_real_constant (class of the builtin).
"""
import pickle

import ir2print as P

SerError = P.SerError
cbool, copt, clist = P.cbool, P.copt, P.clist


def cstr(s):
    if not isinstance(s, str):
        raise SerError("not a str: %r" % (s,))
    for ch in s:
        if ord(ch) > 127 and ch.isspace():
            raise SerError("non-ASCII white space in %r" % (s,))
    return P.cstr(s)


class GSer:
    def __init__(self, program):
        from src.ir import ast, types as tp, groovy_types as gt
        self.ast, self.tp, self.gt = ast, tp, gt
        self.original = program
        self.program = pickle.loads(pickle.dumps(program))     # every oracle call works on this copy
        self.ctx = self.program.context
        self.nnodes = 0
        self.kinds = {}
        self.exact = {gt.VoidType: "GVoid", gt.LongType: "GLong", gt.ShortType: "GShort", gt.ByteType: "GByte",
                      gt.NumberType: "GNumber", gt.BigIntegerType: "GBigInteger", gt.DoubleType: "GDouble",
                      gt.FloatType: "GFloat"}
        # the translator's own dictionaries / comparisons, evaluated on the real objects
        self.int_keys = {gt.Long: "GLong", gt.Short: "GShort", gt.Byte: "GByte", gt.Number: "GNumber",
                         gt.BigInteger: "GBigInteger"}
        self.real_keys = {gt.Double: "GDouble", gt.Float: "GFloat", gt.Number: "GNumber"}
        self.main_vars, self.main_funcs = {}, {}
        self.classes = self.ctx.get_classes(("global",), glob=True)

    # ------------------------------------------------------------------ types
    def ty(self, t):
        tp, gt = self.tp, self.gt
        if isinstance(t, tp.WildCardType):
            if not t.is_wildcard():
                raise SerError("WildCardType.is_wildcard() is false")
            if t.bound is not None and not t.bound:
                raise SerError("falsy wildcard bound")
            return "(TWild %d %s)" % (self.variance(t.variance), copt(t.bound, self.ty))
        if not isinstance(t, tp.Type):
            raise SerError("not a type: %r (%s)" % (t, type(t).__name__))
        if t.is_wildcard():
            raise SerError("non-WildCardType whose is_wildcard() holds: %s" % type(t).__name__)
        if isinstance(t, tp.ParameterizedType):
            con = t.t_constructor
            if not con:
                raise SerError("falsy t_constructor")
            if con.name != t.name:
                raise SerError("name of the parameterized type is not its constructor's")
            arr = isinstance(con, gt.ArrayType)
            if arr and len(t.type_args) < 1:
                raise SerError("array without argument")
            if t.is_primitive():
                raise SerError("primitive parameterized type")
            ci = getattr(t, "can_infer_type_args", None) is True
            return "(TApp %s %s %s %s)" % (cstr(t.name), cbool(arr), cbool(ci), clist([self.ty(a) for a in t.type_args]))
        if getattr(t, "t_constructor", None):
            raise SerError("t_constructor on a non-parameterized type %s" % type(t).__name__)
        if not isinstance(t, (tp.Builtin, tp.SimpleClassifier, tp.TypeParameter, tp.TypeConstructor, tp.Object,
                              tp.NothingType)):
            raise SerError("cannot serialise type %r of class %s" % (t, type(t).__name__))
        name = t.get_name()
        cls = self.exact.get(type(t), "GOther")
        # what the translator's comparisons resolve to for this object
        try:
            if (t == gt.Void) != (cls == "GVoid"):
                raise SerError("`== gt.Void` is not class equality for %s" % type(t).__name__)
            if self.int_keys.get(t, "GOther") != (cls if cls in self.int_keys.values() else "GOther"):
                raise SerError("integer cast table lookup for %s" % type(t).__name__)
            if self.real_keys.get(t, "GOther") != (cls if cls in self.real_keys.values() else "GOther"):
                raise SerError("real cast table lookup for %s" % type(t).__name__)
        except SerError:
            raise
        except Exception as e:        # noqa: BLE001
            raise SerError("comparison / hash of %s raises %s" % (type(t).__name__, type(e).__name__))
        try:
            prim = t.is_primitive()
        except NotImplementedError:
            raise SerError("is_primitive() not implemented for %s" % type(t).__name__)
        if prim is not True and prim is not False:
            raise SerError("is_primitive() is not a bool")
        return "(TName %s %s %s)" % (cls, cbool(prim), cstr(name))

    def variance(self, v):
        tp = self.tp
        if type(v) is not tp.Variance or not isinstance(v.value, int) or v.value < 0:
            raise SerError("variance %r" % (v,))
        if ((v == tp.Invariant), (v == tp.Covariant)) != (v.value == 0, v.value == 1):
            raise SerError("variance comparisons")
        return v.value

    def oty(self, t):
        if t is not None and not t:
            raise SerError("falsy type object")
        return copt(t, self.ty)

    def truthy_is_present(self, x, what):
        if bool(x) != (x is not None):
            raise SerError("truthiness of %s differs from `is not None`" % what)
        return x is not None

    # ------------------------------------------------------------------ oracles (real code, on the copy)
    def main_prefix_holds(self, decl_type, name):
        tab = self.main_vars if decl_type == "vars" else self.main_funcs
        if name not in tab:
            ns_decls = list(self.ctx.get_namespaces_decls(("global",), name, decl_type))
            tab[name] = len(ns_decls) == 1 and ns_decls[0][0][:-1] == self.ast.GLOBAL_NAMESPACE
        return tab[name]

    def boxed(self, t):
        try:
            return self.ty(t if not t.is_primitive() else t.box_type())
        except SerError:
            raise
        except Exception as e:        # noqa: BLE001
            raise SerError("is_primitive() / box_type() of a return type raises %s" % type(e).__name__)

    # ------------------------------------------------------------------ nodes
    def node(self, n):
        a, tp, gt = self.ast, self.tp, self.gt
        self.nnodes += 1
        cls = n.__class__
        self.kinds[cls.__name__] = self.kinds.get(cls.__name__, 0) + 1
        kids = list(n.children())
        if cls is a.Block:
            if not isinstance(n.is_func_block, bool):
                raise SerError("is_func_block")
            k = "KBlock %s" % cbool(n.is_func_block)
        elif cls is a.SuperClassInstantiation:
            if n.class_type is None:
                raise SerError("super instantiation without class type")
            if kids != list(n.args or []):
                raise SerError("children of the super instantiation")
            k = "KSuper %s %s" % (self.ty(n.class_type), cbool(isinstance(n.class_type, tp.Builtin)))
        elif cls is a.ClassDeclaration:
            if n.class_type not in (0, 1, 2):
                raise SerError("class_type %r" % (n.class_type,))
            if kids[:len(n.fields)] != list(n.fields) or any(type(f) is not a.FieldDeclaration for f in n.fields):
                raise SerError("fields are not the first children")
            sup = kids[len(n.fields):len(n.fields) + len(n.superclasses)]
            if sup != list(n.superclasses) or any(type(x) is not a.SuperClassInstantiation for x in sup):
                raise SerError("superclasses are not the next children")
            for x in sup:
                if x.class_type.name not in self.classes:
                    raise SerError("superclass %s is not a class of the context" % x.class_type.name)
            k = "KClass %s %d %s %d %d %d" % (cstr(n.name), n.class_type, cbool(bool(n.is_final)),
                                               len(n.fields), len(n.superclasses), len(n.functions))
        elif cls is tp.TypeParameter:
            k = "KTypeParam %s %s" % (cstr(n.name), copt(n.bound, self.ty))
        elif cls is a.VariableDeclaration:
            if n.inferred_type is None:
                raise SerError("variable without inferred type")
            self.truthy_is_present(n.var_type, "VariableDeclaration.var_type")
            self.main_prefix_holds("vars", n.name)
            k = "KVarDecl %s %s %s %s" % (cstr(n.name), cbool(bool(n.is_final)), self.oty(n.var_type),
                                          self.ty(n.inferred_type))
        elif cls is a.CallArgument:
            k = "KCallArg"
        elif cls is a.FieldDeclaration:
            k = "KField %s %s %s" % (cstr(n.name), self.ty(n.field_type), cbool(bool(n.is_final)))
        elif cls is a.ParameterDeclaration:
            if n.vararg and isinstance(n.param_type, tp.ParameterizedType) and len(n.param_type.type_args) < 1:
                raise SerError("vararg type without argument")
            k = "KParam %s %s %s" % (cstr(n.name), self.ty(n.param_type), cbool(bool(n.vararg)))
        elif cls is a.FunctionDeclaration:
            hb = self.truthy_is_present(n.body, "FunctionDeclaration.body")
            self.truthy_is_present(n.ret_type, "FunctionDeclaration.ret_type")
            if n.inferred_type is None or n.get_type() is not n.inferred_type:
                raise SerError("function without inferred type")
            if n.body is not None and kids[-1] is not n.body:
                raise SerError("body is not the last child")
            k = "KFunc %s %s %s %s %s %s %d %d" % (cstr(n.name), self.oty(n.ret_type), self.ty(n.inferred_type),
                                                   self.boxed(n.inferred_type), cbool(bool(n.is_final)), cbool(hb),
                                                   len(n.params), len(n.type_parameters))
        elif cls is a.Lambda:
            hb = self.truthy_is_present(n.body, "Lambda.body")
            if n.get_type() is not n.ret_type:
                raise SerError("Lambda.get_type() is not ret_type")
            if n.ret_type is None:
                raise SerError("lambda without return type (the translator raises)")
            self.boxed(n.ret_type)           # visit_lambda evaluates it (and may raise)
            try:
                sig = n.get_signature(gt.GroovyBuiltinFactory().get_function_type(len(n.params)))
            except Exception as e:        # noqa: BLE001
                raise SerError("get_signature raises %s" % type(e).__name__)
            k = "KLambda %s %s %s %d %s" % (cstr(n.name), self.oty(n.ret_type), self.ty(sig), len(n.params), cbool(hb))
        elif cls is a.BottomConstant:
            self.truthy_is_present(n.t, "BottomConstant.t")
            k = "KBottom %s" % self.oty(n.t)
        elif cls is a.IntegerConstant:
            if n.integer_type is None:
                raise SerError("integer constant without type")
            k = "KInt %s %s" % (cstr(str(n.literal)), self.ty(n.integer_type))
        elif cls is a.RealConstant:
            if n.real_type is None:
                raise SerError("real constant without type")
            k = "KReal %s %s" % (cstr(str(n.literal)), self.ty(n.real_type))
        elif cls is a.CharConstant:
            k = "KChar %s" % cstr("{}".format(n.literal))
        elif cls is a.StringConstant:
            k = "KString %s" % cstr("{}".format(n.literal))
        elif cls is a.BooleanConstant:
            k = "KBool %s" % cstr(str(n.literal))
        elif cls is a.ArrayExpr:
            if not isinstance(n.array_type, tp.ParameterizedType) or len(n.array_type.type_args) < 1:
                raise SerError("array type is not parameterized")
            ln = n.length
            if ln is None:
                ln = 0
            if not isinstance(ln, int) or isinstance(ln, bool) or ln < 0:
                raise SerError("array length %r" % (ln,))
            k = "KArray %s %d" % (self.ty(n.array_type), ln)
        elif cls is a.Variable:
            self.main_prefix_holds("vars", n.name)
            k = "KVariable %s" % cstr(n.name)
        elif cls in (a.LogicalExpr, a.EqualityExpr, a.ComparisonExpr, a.ArithExpr):
            k = "KBinOp %s" % self.op(n.operator)
        elif cls is a.Conditional:
            if kids != [n.cond, n.true_branch, n.false_branch]:
                raise SerError("children of the conditional")
            k = "KCond"
        elif cls is a.Is:
            if kids != [n.lexpr]:
                raise SerError("children of Is")
            k = "KIs %s %s" % (cbool(bool(n.operator.is_not)), self.ty(n.rexpr))
        elif cls is a.New:
            k = "KNew %s" % self.ty(n.class_type)
        elif cls is a.FieldAccess:
            if kids != [n.expr]:
                raise SerError("children of FieldAccess")
            k = "KFieldAccess %s" % cstr(n.field)
        elif cls is a.FunctionReference:
            if (kids != []) != bool(n.receiver):
                raise SerError("children of FunctionReference")
            sig = n.get_signature()
            if sig is None:
                raise SerError("function reference without signature (the translator raises)")
            k = "KFuncRef %s %s" % (cstr(n.func), self.ty(sig))
        elif cls is a.FunctionCall:
            hr = self.truthy_is_present(n.receiver, "FunctionCall.receiver")
            self.main_prefix_holds("funcs", n.func)
            self.main_prefix_holds("vars", n.func)
            if not isinstance(n.is_ref_call, bool):
                raise SerError("is_ref_call")
            k = "KFuncCall %s %s %s %s %s" % (cstr(n.func), clist([self.ty(t) for t in n.type_args]),
                                              cbool(n.can_infer_type_args), cbool(n.is_ref_call), cbool(hr))
        elif cls is a.Assignment:
            hr = self.truthy_is_present(n.receiver, "Assignment.receiver")
            self.main_prefix_holds("vars", n.name)
            k = "KAssign %s %s" % (cstr(n.name), cbool(hr))
        else:
            raise SerError("unknown node class %s" % cls.__name__)
        return "(PN (%s) %s)" % (k, clist([self.node(c) for c in kids]))

    def op(self, o):
        if type(o) is not self.ast.Operator or not isinstance(o.name, str):
            raise SerError("operator %r" % (o,))
        if str(o) != ("!" if o.is_not else "") + o.name:
            raise SerError("str(operator)")
        return "%s %s" % (cstr(o.name), cbool(bool(o.is_not)))

    def prog(self):
        a = self.ast
        if type(self.program) is not a.Program:
            raise SerError("not a Program")
        decls = [self.node(d) for d in self.program.children()]
        ifaces = [name for name, d in self.classes.items() if d.class_type == a.ClassDeclaration.INTERFACE]
        ctx = "(mkCtx %s %s %s)" % (
            clist([cstr(x) for x, v in self.main_vars.items() if v]),
            clist([cstr(x) for x, v in self.main_funcs.items() if v]),
            clist([cstr(x) for x in ifaces]))
        return "(mkProgram %s %s)" % (ctx, clist(decls))


HEADER = (P.C.CASE_HEADER + "From Coq Require Import String Ascii List Arith Bool.\nImport ListNotations.\n"
          "From Heph Require Import IR.PrintGroovy.\nOpen Scope string_scope.\nOpen Scope list_scope.\n")
