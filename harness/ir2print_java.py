"""ast.Program -> the printing-oriented tree of coq/IR/PrintJava.v (pprogram / pnode / ptype).

One PN per object JavaTranslator visits (or could visit); the children are exactly
node.children(); the kind carries the attributes java.py reads.  Fail-closed: unknown node or
type classes, strings with non-ASCII white space (Python's strip / split / \\s act on code
points, the model on bytes), functions with 8 or more parameters (iteration order of the
Python set _function_interfaces) raise SerError.

What the model does NOT compute and the serialiser therefore evaluates with the REAL code, on a
pickled copy of the program (so that no oracle call can touch the program under test):
  * per Block: tu.get_type_hint of the last statement (with and without smart casts) and
    tu.get_function_reference_type, for the namespace / smart casts the translator has at that
    position (the serialiser tracks both exactly like java.py: change_namespace, true_block /
    false_block, the nested JavaTranslator of construct_constructor starts with no smart casts);
  * per program (tables, keyed by namespace where the implementation's query is): the names for
    which _get_main_prefix's context query holds ('vars' / 'funcs'), the interface classes, the
    namespaces that are functions or lambdas (is_nested_func), the receiver visit_func_ref
    computes for a reference without receiver, and what visit_func_call reads from get_decl.
The model keeps _namespace and _visit_is_stack in its state and looks the tables up with its OWN
namespace, so a wrong namespace in the model shows as a text mismatch.
"""
import pickle

import ir2print as P

SerError = P.SerError
cbool, copt, clist = P.cbool, P.copt, P.clist


def cstr(s):
    if not isinstance(s, str):
        raise SerError("not a str: %r" % (s,))
    for ch in s:
        if ord(ch) > 127 and ch.isspace():
            raise SerError("non-ASCII white space in %r" % (s,))
    return P.cstr(s)


class JSer:
    def __init__(self, program):
        from src.ir import ast, types as tp, java_types as jt, type_utils as tu
        from src.ir import context as ctxmod
        self.ast, self.tp, self.jt, self.tu, self.ctxmod = ast, tp, jt, tu, ctxmod
        self.original = program
        self.program = self.copy_of(program)     # every oracle call works on this copy
        self.ctx = self.program.context
        self.nnodes = 0
        self.kinds = {}
        self.hint_exceptions = 0
        self.hint_unprintable = 0
        self.exact = {jt.VoidType: "JVoid", jt.LongType: "JLong", jt.ShortType: "JShort", jt.ByteType: "JByte",
                      jt.NumberType: "JNumber", jt.FloatType: "JFloat"}
        self.factory = jt.JavaBuiltinFactory()
        self.main_vars, self.main_funcs = {}, {}
        self.fun_ns = []
        self.funcref = {}
        self.calls = {}
        try:
            self.types = self.program.get_types()
        except Exception:           # noqa: BLE001  (`types` is only passed through by get_type_hint)
            self.types = []

    def copy_of(self, program):
        """deep copy through pickle that keeps the identity of the singleton tp.Nothing (`node.t != tp.Nothing` in
        visit_bottom_constant is an identity test: NothingType has no __eq__)"""
        import io
        nothing = self.tp.Nothing

        class Pk(pickle.Pickler):
            def persistent_id(self, obj):
                return "Nothing" if obj is nothing else None

        class Up(pickle.Unpickler):
            def persistent_load(self, pid):
                if pid == "Nothing":
                    return nothing
                raise pickle.UnpicklingError(pid)

        buf = io.BytesIO()
        Pk(buf).dump(program)
        buf.seek(0)
        return Up(buf).load()

    # ------------------------------------------------------------------ types
    def ty(self, t):
        tp, jt = self.tp, self.jt
        if isinstance(t, tp.WildCardType):
            if not t.is_wildcard():
                raise SerError("WildCardType.is_wildcard() is false")
            if t.bound is not None and not t.bound:
                raise SerError("falsy wildcard bound")
            return "(TWild %d %s)" % (self.variance(t.variance), copt(t.bound, self.ty))
        if not isinstance(t, tp.Type):
            raise SerError("not a type: %r (%s)" % (t, type(t).__name__))
        if t.is_wildcard():
            raise SerError("non-WildCardType whose is_wildcard() holds: %s" % type(t).__name__)
        if isinstance(t, tp.ParameterizedType):
            con = t.t_constructor
            if not con:
                raise SerError("falsy t_constructor")
            if con.name != t.name:
                raise SerError("name of the parameterized type is not its constructor's")
            arr = isinstance(con, jt.ArrayType)
            if arr and len(t.type_args) < 1:
                raise SerError("array without argument")
            if t.is_function_type() != str(t.name).startswith("Function"):
                raise SerError("is_function_type")
            ci = getattr(t, "can_infer_type_args", None) is True
            return "(TApp %s %s %s %s)" % (cstr(t.name), cbool(arr), cbool(ci), clist([self.ty(a) for a in t.type_args]))
        if getattr(t, "t_constructor", None):
            raise SerError("t_constructor on a non-parameterized type %s" % type(t).__name__)
        if getattr(t, "is_function_type", lambda: False)():
            raise SerError("function type that is not parameterized")
        name = t.get_name()
        cls = self.exact.get(type(t), "JOther")
        if not isinstance(t, (tp.Builtin, tp.SimpleClassifier, tp.TypeParameter, tp.TypeConstructor, tp.Object,
                              tp.NothingType)):
            raise SerError("cannot serialise type %r of class %s" % (t, type(t).__name__))
        try:
            prim = bool(t.is_primitive())
        except NotImplementedError:
            prim = False
        return "(TName %s %s %s)" % (cls, cbool(prim), cstr(name))

    def variance(self, v):
        if type(v) is not self.tp.Variance or not isinstance(v.value, int) or v.value < 0:
            raise SerError("variance %r" % (v,))
        if (v.is_invariant(), v.is_covariant()) != (v.value == 0, v.value == 1):
            raise SerError("variance predicates")
        return v.value

    def oty(self, t):
        if t is not None and not t:
            raise SerError("falsy type object")
        return copt(t, self.ty)

    def truthy_is_present(self, x, what):
        if bool(x) != (x is not None):
            raise SerError("truthiness of %s differs from `is not None`" % what)
        return x is not None

    def ns(self, ns):
        return clist([cstr(x) for x in reversed(ns)])

    # ------------------------------------------------------------------ oracles (real code, on the copy)
    def main_prefix_holds(self, decl_type, name):
        tab = self.main_vars if decl_type == "vars" else self.main_funcs
        if name not in tab:
            ns_decls = list(self.ctx.get_namespaces_decls(("global",), name, decl_type))
            tab[name] = len(ns_decls) == 1 and ns_decls[0][0][:-1] == self.ast.GLOBAL_NAMESPACE
        return tab[name]

    def note_function_namespace(self, ns):
        """what is_nested_func of visit_func_decl computes from the context for the namespace ns of a function"""
        parent_namespace, parent_name = ns[:-2], ns[-2]
        d = self.ctx.get_decl(parent_namespace, parent_name)
        if d is None:
            d = self.ctx.get_lambda(parent_namespace, parent_name)
        if isinstance(d, (self.ast.Lambda, self.ast.FunctionDeclaration)):
            if ns[:-1] not in self.fun_ns:
                self.fun_ns.append(ns[:-1])

    def funcref_receiver(self, ns, func):
        key = (ns, func)
        if key not in self.funcref:
            receiver = ""
            parent_cls = self.ctx.get_parent_class(ns)
            if parent_cls:
                class_decls = self.ctx.get_classes(("global",), glob=True).values()
                parent_methods = parent_cls.get_callable_functions(class_decls)
                if func in {m.name for m in parent_methods}:
                    receiver = "this"
            decl = self.ctxmod.get_decl(self.ctx, ns, func)
            if decl:
                namespace, decl = decl
                if namespace == self.ast.GLOBAL_NAMESPACE and isinstance(decl, self.ast.FunctionDeclaration):
                    receiver = "Main"
            self.funcref[key] = receiver
        return self.funcref[key]

    def call_info(self, ns, func):
        key = (ns, func)
        if key not in self.calls:
            fdecl = self.ctxmod.get_decl(self.ctx, ns, func)
            if fdecl and not isinstance(fdecl[1], self.ast.FunctionDeclaration):
                fdecl = None
            if not fdecl:
                self.calls[key] = None
            else:
                last = fdecl[0][-1]
                if not isinstance(last, str) or last == "":
                    raise SerError("namespace component %r" % (last,))
                nested = last != "global" and last[0].islower()
                params = fdecl[1].params
                va = len(params) > 0 and bool(params[-1].vararg)
                vt = None
                if nested and va:
                    vty = params[-1].param_type
                    if not isinstance(vty, self.tp.ParameterizedType) or len(vty.type_args) < 1:
                        raise SerError("vararg parameter type is not parameterized")
                    vt = self.ty(vty)
                self.calls[key] = "(mkCall %s %d %s %s)" % (cbool(nested), len(params), cbool(va), copt(vt, str))
        return self.calls[key]

    def hint_ty(self, t):
        """a hint that is not a well-formed type (e.g. a signature with an erased return type) is handed over as
        None: the translator cannot print it either (get_type_name raises); counted"""
        try:
            return self.oty(t)
        except SerError:
            self.hint_unprintable += 1
            return "None"

    def hints(self, block, ns, sc, types):
        """(void without smart casts, hint with smart casts, function reference signature)"""
        a, tu = self.ast, self.tu
        if not block.body:
            return "(mkHint false None None)"
        last = block.body[-1]

        def oracle(f, default):
            # the translator raises too if it needs a hint whose evaluation raises; each oracle separately, because
            # the translator does not evaluate all of them at every block
            try:
                return f()
            except SerError:
                raise
            except Exception:       # noqa: BLE001
                self.hint_exceptions += 1
                return default
        void0 = oracle(lambda: isinstance(tu.get_type_hint(last, self.ctx, ns, self.factory, types), self.jt.VoidType), False)
        h1 = oracle(lambda: tu.get_type_hint(last, self.ctx, ns, self.factory, types, smart_casts=list(sc)), None)
        sig = None
        if isinstance(last, a.FunctionReference):
            sig = oracle(lambda: tu.get_function_reference_type(last, self.ctx, ns, self.factory, types,
                                                                smart_casts=list(sc)), None)
        return "(mkHint %s %s %s)" % (cbool(void0), self.hint_ty(h1), self.hint_ty(sig))

    # ------------------------------------------------------------------ nodes
    def node(self, n, ns, sc, types):
        a, tp = self.ast, self.tp
        self.nnodes += 1
        cls = n.__class__
        self.kinds[cls.__name__] = self.kinds.get(cls.__name__, 0) + 1
        kids = list(n.children())
        kid_terms = None
        if cls is a.Block:
            k = "KBlock %s" % self.hints(n, ns, sc, types)
        elif cls is a.SuperClassInstantiation:
            if n.class_type is None:
                raise SerError("super instantiation without class type")
            k = "KSuper %s %s" % (self.ty(n.class_type), cbool(isinstance(n.class_type, tp.Builtin)))
            # the arguments are visited by a NEW JavaTranslator (construct_constructor): no smart casts, types = []
            kid_terms = [self.node(c, ns, [], []) for c in kids]
        elif cls is a.ClassDeclaration:
            if n.class_type not in (0, 1, 2):
                raise SerError("class_type %r" % (n.class_type,))
            if kids[:len(n.fields)] != list(n.fields) or any(type(f) is not a.FieldDeclaration for f in n.fields):
                raise SerError("fields are not the first children")
            k = "KClass %s %d %s %d %d %d" % (cstr(n.name), n.class_type, cbool(bool(n.is_final)),
                                               len(n.fields), len(n.superclasses), len(n.functions))
            ns2 = ns + (n.name,)
            kid_terms = [self.node(c, ns2, sc, types) for c in kids]
        elif cls is tp.TypeParameter:
            if n.bound is not None and not n.bound:
                raise SerError("falsy bound")
            k = "KTypeParam %s %s" % (cstr(n.name), self.oty(n.bound))
        elif cls is a.VariableDeclaration:
            if n.inferred_type is None:
                raise SerError("variable without inferred type")
            self.main_prefix_holds("vars", n.name)
            k = "KVarDecl %s %s %s %s" % (cstr(n.name), cbool(bool(n.is_final)), self.oty(n.var_type),
                                          self.ty(n.inferred_type))
        elif cls is a.CallArgument:
            k = "KCallArg"
        elif cls is a.FieldDeclaration:
            k = "KField %s %s %s" % (cstr(n.name), self.ty(n.field_type), cbool(bool(n.is_final)))
        elif cls is a.ParameterDeclaration:
            k = "KParam %s %s %s" % (cstr(n.name), self.ty(n.param_type), cbool(bool(n.vararg)))
        elif cls is a.FunctionDeclaration:
            hb = self.truthy_is_present(n.body, "FunctionDeclaration.body")
            if n.inferred_type is None:
                raise SerError("function without inferred type")
            if len(n.params) >= 8:
                raise SerError("function with 8 or more parameters")
            if n.body is not None and kids[-1] is not n.body:
                raise SerError("body is not the last child")
            k = "KFunc %s %s %s %s %s %d %d" % (cstr(n.name), self.oty(n.ret_type), self.ty(n.get_type()),
                                                cbool(bool(n.is_final)), cbool(hb), len(n.params), len(n.type_parameters))
            ns2 = ns + (n.name,)
            self.note_function_namespace(ns2)
            kid_terms = [self.node(c, ns2, sc, types) for c in kids]
        elif cls is a.Lambda:
            hb = self.truthy_is_present(n.body, "Lambda.body")
            if n.get_type() is not n.ret_type:
                raise SerError("Lambda.get_type() is not ret_type")
            k = "KLambda %s %s %d %s" % (cstr(n.name), self.oty(n.ret_type), len(n.params), cbool(hb))
            ns2 = ns + (n.name,)
            kid_terms = [self.node(c, ns2, sc, types) for c in kids]
        elif cls is a.BottomConstant:
            cast = bool(n.t and n.t != tp.Nothing)
            k = "KBottom %s %s" % (copt(n.t if n.t else None, self.ty), cbool(cast))
        elif cls is a.IntegerConstant:
            k = "KInt %s %s" % (cstr(str(n.literal)), self.oty(n.integer_type))
        elif cls is a.RealConstant:
            k = "KReal %s %s" % (cstr(str(n.literal)), self.oty(n.real_type))
        elif cls is a.CharConstant:
            k = "KChar %s" % cstr("{}".format(n.literal))
        elif cls is a.StringConstant:
            k = "KString %s" % cstr("{}".format(n.literal))
        elif cls is a.BooleanConstant:
            k = "KBool %s" % cstr(str(n.literal))
        elif cls is a.ArrayExpr:
            if not isinstance(n.array_type, tp.ParameterizedType) or len(n.array_type.type_args) < 1:
                raise SerError("array type is not parameterized")
            ln = n.length
            if ln is None:
                ln = 0
            if not isinstance(ln, int) or isinstance(ln, bool) or ln < 0:
                raise SerError("array length %r" % (ln,))
            k = "KArray %s %d" % (self.ty(n.array_type), ln)
        elif cls is a.Variable:
            self.main_prefix_holds("vars", n.name)
            k = "KVariable %s" % cstr(n.name)
        elif cls in (a.LogicalExpr, a.EqualityExpr, a.ComparisonExpr, a.ArithExpr):
            k = "KBinOp %s" % self.op(n.operator)
        elif cls is a.Conditional:
            k = "KCond"
            cond, tb, fb = kids
            if cond is not n.cond or tb is not n.true_branch or fb is not n.false_branch:
                raise SerError("children of the conditional")
            if isinstance(cond, a.Is):
                pair = (cond.lexpr, cond.rexpr)
                neg = bool(cond.operator.is_not)
                kid_terms = [self.node(cond, ns, sc, types),
                             self.node(tb, ns + ("true_block",), sc if neg else sc + [pair], types),
                             self.node(fb, ns + ("false_block",), sc + [pair] if neg else sc, types)]
        elif cls is a.Is:
            if kids != [n.lexpr]:
                raise SerError("children of Is")
            if n.operator.name != "is":
                raise SerError("operator of Is")
            k = "KIs %s %s %s" % (cbool(bool(n.operator.is_not)), cstr(n.rexpr.get_name()), self.ty(n.rexpr))
        elif cls is a.New:
            k = "KNew %s" % self.ty(n.class_type)
        elif cls is a.FieldAccess:
            if kids != [n.expr]:
                raise SerError("children of FieldAccess")
            k = "KFieldAccess %s" % cstr(n.field)
        elif cls is a.FunctionReference:
            if not kids:
                self.funcref_receiver(ns, n.func)
            k = "KFuncRef %s" % cstr(n.func)
        elif cls is a.FunctionCall:
            hr = self.truthy_is_present(n.receiver, "FunctionCall.receiver")
            self.main_prefix_holds("funcs", n.func)
            self.main_prefix_holds("vars", n.func)
            self.call_info(ns, n.func)
            if not isinstance(n.is_ref_call, bool):
                raise SerError("is_ref_call")
            k = "KFuncCall %s %s %s %s %s" % (cstr(n.func), clist([self.ty(t) for t in n.type_args]),
                                              cbool(n.can_infer_type_args), cbool(n.is_ref_call), cbool(hr))
        elif cls is a.Assignment:
            hr = self.truthy_is_present(n.receiver, "Assignment.receiver")
            self.main_prefix_holds("vars", n.name)
            k = "KAssign %s %s" % (cstr(n.name), cbool(hr))
        else:
            raise SerError("unknown node class %s" % cls.__name__)
        if kid_terms is None:
            kid_terms = [self.node(c, ns, sc, types) for c in kids]
        return "(PN (%s) %s)" % (k, clist(kid_terms))

    def op(self, o):
        if type(o) is not self.ast.Operator or not isinstance(o.name, str):
            raise SerError("operator %r" % (o,))
        if str(o) != ("!" if o.is_not else "") + o.name:
            raise SerError("str(operator)")
        return "%s %s" % (cstr(o.name), cbool(bool(o.is_not)))

    def prog(self):
        a = self.ast
        if type(self.program) is not a.Program:
            raise SerError("not a Program")
        decls = [self.node(d, a.GLOBAL_NAMESPACE, [], self.types) for d in self.program.children()]
        classes = self.ctx.get_classes(("global",), glob=True)
        ifaces = [name for name, d in classes.items() if d.class_type == a.ClassDeclaration.INTERFACE]
        ctx = "(mkCtx %s %s %s %s %s %s)" % (
            clist([cstr(x) for x, v in self.main_vars.items() if v]),
            clist([cstr(x) for x, v in self.main_funcs.items() if v]),
            clist([cstr(x) for x in ifaces]),
            clist([self.ns(x) for x in self.fun_ns]),
            clist(["(%s, %s, %s)" % (self.ns(ns), cstr(f), cstr(r)) for (ns, f), r in self.funcref.items()]),
            clist(["(%s, %s, %s)" % (self.ns(ns), cstr(f), ci) for (ns, f), ci in self.calls.items() if ci is not None]))
        return "(mkProgram %s %s)" % (ctx, clist(decls))


HEADER = (P.C.CASE_HEADER + "From Coq Require Import String Ascii List Arith Bool.\nImport ListNotations.\n"
          "From Heph Require Import IR.PrintJava.\nOpen Scope string_scope.\nOpen Scope list_scope.\n")
