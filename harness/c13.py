"""C13 -- saved programs replay faithfully.

CPython's pickle is NOT modelled.  What Coq carries is the program IR (IR/Syntax.v: every node
with every attribute, types as nominal terms) and the decision procedure for equality of two
programs proved exact (type_changes [] p q = Some [] <-> p = q, Properties_C13.v), plus -- from
C11/C12 -- the four translator models, which make the printed text a function of the tree.
Tie, per explored program and at every stage at which the driver saves it (generated, after
erasure, after overwriting): two lineages are kept, A (never saved) and B (written with the
real utils.dump_program and read back with the real utils.load_program at every stage, and
mutated from the reloaded object with the same random seed as A).  At every stage the kernel
proves  ser(A) = ser(B)  (a theorem per pair), the texts of A and B in all four languages are
compared, and dumping the reloaded program again must give a program equal to it (and, where
the bytes are comparable, the same bytes).
PARTIAL: sampled over seeds; object identity, sharing and the dictionaries of the Context are
observed only through what the serialiser, the translators and the mutations read.
"""
import os
import pickle
import shutil
import tempfile
import time

import common as C
import tymodel as T
import ir2coq
import progs
import wholeprog as W


def run(tier, seed, replay=None):
    rep = C.Report("C13", tier, seed, "translation_validation")
    C.setup_repo_import(seed, ["hephaestus.py", "--iterations", "1", "--language", "kotlin"])
    import src.args  # noqa: F401
    from src import utils as U
    from src.transformations.type_erasure import TypeErasure
    from src.transformations.type_overwriting import TypeOverwriting
    from src.translators.kotlin import KotlinTranslator
    from src.translators.java import JavaTranslator
    from src.translators.groovy import GroovyTranslator
    from src.translators.scala import ScalaTranslator
    TR = {"kotlin": KotlinTranslator, "java": JavaTranslator, "groovy": GroovyTranslator, "scala": ScalaTranslator}
    T.emit_generated()
    rows = progs.config_table()
    proof_ok = C.proof_part(rep, "IR/Properties_C13.v", ["Generated/Builtins.vo", "IR/Diff.vo", "IR/DiffProofs.vo"], ["IR", "Types", "Generated"])
    langs = {l: T.Lang(l) for l in T.LANGS}
    nper = int(os.environ.get("VERIF_C13_N", "5")) if tier == "quick" else 150
    tmpd = tempfile.mkdtemp(prefix="c13-")
    pairs = []          # (lang, seed, stage, L, nA, nB, serB)
    text_diff, bytes_unstable, redump_diff, crashes = [], [], [], []
    saved = {}
    t0 = time.time()

    def texts(p):
        out = {}
        for l2, cls in TR.items():
            try:
                out[l2] = U.translate_program(cls("src.pkg", {}), p)
            except Exception as e:      # noqa: BLE001  (translating a program to a foreign language may fail: C18's subject)
                out[l2] = "EXC %s" % type(e).__name__
        return out

    def roundtrip(p, tag):
        path = os.path.join(tmpd, tag + ".bin")
        U.dump_program(path, p)
        q = U.load_program(path)
        return q, open(path, "rb").read()

    try:
        for lang in T.LANGS:
            L = langs[lang]
            for s in range(nper):
                sd = C.sub_seed(seed, "c13", lang, s) % (2 ** 31)
                progs.set_cfg(rows[0])
                try:
                    a = progs.generate(lang, sd)
                    b, _ = roundtrip(a, "g")
                    for stage in ("generated", "erased", "overwritten"):
                        if stage != "generated":
                            cls = TypeErasure if stage == "erased" else TypeOverwriting
                            res = []
                            for prog_ in (a, b):
                                U.random.r.seed(sd + 17)
                                tr_ = cls(prog_, lang, None, {"timeout": 600})
                                tr_.transform()
                                res.append((tr_.result(), bool(tr_.is_transformed), getattr(tr_, "error_injected", None)))
                            (a, ta, ea), (b, tb, eb) = res
                            if (ta, ea) != (tb, eb):
                                text_diff.append((lang, sd, stage, "is_transformed / error_injected differ: %r vs %r" % ((ta, ea), (tb, eb))))
                            b, _ = roundtrip(b, stage[0])
                        # the stage's comparison
                        sa = ir2coq.Ser(L, a)
                        na = sa.prog()
                        sb = ir2coq.Ser(L, b)
                        sb.names, sb.classes, sb.tvars = dict(sa.names), dict(sa.classes), dict(sa.tvars)
                        nb = sb.prog()
                        pairs.append((lang, sd, stage, L, na, nb))
                        saved[(lang, sd, stage)] = pickle.dumps(b)
                        ta_, tb_ = texts(a), texts(b)
                        for l2 in TR:
                            if ta_[l2] != tb_[l2]:
                                text_diff.append((lang, sd, stage, "the %s text of the reloaded program differs" % l2))
                        # dumping the reloaded program again
                        c, bytes_b = roundtrip(b, "again")
                        _, bytes_c = roundtrip(c, "again2")
                        if bytes_b != bytes_c:
                            bytes_unstable.append((lang, sd, stage))
                        sc = ir2coq.Ser(L, c)
                        sc.names, sc.classes, sc.tvars = dict(sa.names), dict(sa.classes), dict(sa.tvars)
                        if sc.prog() != nb:
                            redump_diff.append((lang, sd, stage))
                except Exception as e:          # noqa: BLE001
                    crashes.append((lang, sd, "%s: %s" % (type(e).__name__, str(e)[:150])))
    finally:
        shutil.rmtree(tmpd, ignore_errors=True)
    t_gen = time.time() - t0
    hdr = W.HDR.replace("IR.Check", "IR.Check IR.Diff IR.DiffProofs")
    per = 6
    files = []
    for k in range(0, len(pairs), per):
        chunk = pairs[k:k + per]
        body = "".join("Definition a%d : node := %s.\nDefinition b%d : node := %s.\n" % (j, ir2coq.coq_node(c[4]), j, ir2coq.coq_node(c[5]))
                       for j, c in enumerate(chunk))
        text = hdr + body + "\nEval vm_compute in [%s].\n" % "; ".join(
            "match type_changes [] a%d b%d with Some [] => 1 | _ => 0 end" % (j, j) for j in range(len(chunk)))
        files.append(("c13_%d" % (k // per), text))
    C.clean_cases("c13_")
    res = C.run_case_files(files, timeout=1800)
    equal = {}
    for k, (name, _) in zip(range(0, len(pairs), per), files):
        rc, out = res[name]
        if rc != 0:
            rep.violation("case-file", "case file %s did not evaluate: %s" % (name, out[-500:]), dict(broken=name, log=out[-3000:]), no_input=True)
            continue
        vals = C.parse_nat_list(C.parse_eval_outputs(out)[-1])
        for j, v in enumerate(vals):
            equal[k + j] = (v == 1)
    # kernel certificates for the equal pairs
    good = [i for i in range(len(pairs)) if equal.get(i)]
    cfiles = []
    for k in range(0, len(good), per):
        idx = good[k:k + per]
        body = "".join("Definition a%d : node := %s.\nDefinition b%d : node := %s.\n" % (j, ir2coq.coq_node(pairs[i][4]), j, ir2coq.coq_node(pairs[i][5]))
                       for j, i in enumerate(idx))
        body += "".join("Theorem reloaded_%d : a%d = b%d.\nProof. apply (proj1 (type_changes_nil_iff [] a%d b%d)). vm_compute. reflexivity. Qed.\n"
                        % (j, j, j, j, j) for j in range(len(idx)))
        cfiles.append(("c13c_%d" % (k // per), hdr + body, len(idx)))
    res2 = C.run_case_files([(n_, t_) for n_, t_, _ in cfiles], timeout=1800)
    ncert = 0
    for n_, t_, cnt in cfiles:
        rc, out = res2[n_]
        if rc == 0:
            ncert += cnt
        else:
            rep.violation("certificate", "kernel did not accept the certificates of %s: %s" % (n_, out[-400:]), dict(broken=n_, log=out[-2000:]),
                          no_input=True)
    C.clean_cases("c13")
    os.makedirs(os.path.join(C.REPLAYS, "C13"), exist_ok=True)

    def save(lang, sd, stage):
        binp = os.path.join(C.REPLAYS, "C13", "prog-%s-%d-%s.bin" % (lang, sd, stage))
        if (lang, sd, stage) in saved:
            open(binp, "wb").write(saved[(lang, sd, stage)])
        return binp
    for i, (lang, sd, stage, L, na, nb) in enumerate(pairs):
        if i in equal and not equal[i]:
            rep.violation("tree", "%s seed %d, stage %s: the program that was dumped and loaded (and mutated with the same random choices) is not "
                          "the program of the unsaved lineage" % (lang, sd, stage),
                          dict(lang=lang, seed=sd, stage=stage, program_bin=save(lang, sd, stage), shape="reloaded-tree-differs"))
    for (lang, sd, stage, what) in text_diff[:5]:
        rep.violation("text", "%s seed %d, stage %s: %s" % (lang, sd, stage, what),
                      dict(lang=lang, seed=sd, stage=stage, what=what, program_bin=save(lang, sd, stage), shape="reloaded-text-differs"))
    for (lang, sd, stage) in redump_diff[:5]:
        rep.violation("redump", "%s seed %d, stage %s: dumping and loading the reloaded program again changes it" % (lang, sd, stage),
                      dict(lang=lang, seed=sd, stage=stage, program_bin=save(lang, sd, stage), shape="redump-differs"))
    if not proof_ok and not rep.violations:
        rep.violation("proof", rep.proof_broken, dict(broken=rep.proof_broken), no_input=True)
    rep.add(programs=len(pairs), evaluations=len(pairs), distinct_nontrivial=ncert, pairs_certified_in_kernel=ncert,
            disagreements_checked=sum(1 for v in equal.values() if not v) + len(text_diff) + len(redump_diff),
            texts_compared=4 * len(pairs), text_differences=len(text_diff), redump_tree_differences=len(redump_diff),
            redump_bytes_not_identical=len(bytes_unstable), exceptions=len(crashes), exception_samples=[list(c) for c in crashes[:5]],
            generation_s=round(t_gen, 1),
            stage_histogram={st: sum(1 for p_ in pairs if p_[2] == st) for st in ("generated", "erased", "overwritten")},
            rule="programs of the four languages; lineage A is never saved, lineage B goes through utils.dump_program / load_program at every "
                 "stage and is mutated from the reloaded object under the same random seed; per stage the kernel proves ser(A) = ser(B)",
            samples=[dict(lang=p_[0], seed=p_[1], stage=p_[2]) for p_ in pairs[:3]],
            trusted_base=C.TRUSTED_BASE_COMMON + ["harness/ir2coq.py serialiser: equality is equality of what it observes",
                                                  "pickle itself is not modelled"])
    rep.assumptions = ["redump_bytes_not_identical counts byte-level differences of a second dump (pickle memo order); they are reported as a "
                       "statistic, the verdict is on the reloaded programs"]
    return rep.finish()
