"""C13 -- saved programs replay faithfully.

CPython's pickle is NOT modelled.  What Coq carries is the program IR (IR/Syntax.v: every node
with every attribute, types as nominal terms) and the decision procedure for equality of two
programs proved exact (type_changes [] p q = Some [] <-> p = q, Properties_C13.v), plus -- from
C11/C12 -- the four translator models, which make the printed text a function of the tree.
Tie, per explored program and at every stage at which the driver saves it (generated, after
erasure, after overwriting): two lineages are kept, A (never saved) and B (written with the
real utils.dump_program and read back with the real utils.load_program at every stage, and
mutated from the reloaded object with the same random seed as A).  At every stage the kernel
proves  ser(A) = ser(B)  (a theorem per pair), the texts of A and B in all four languages are
compared, and dumping the reloaded program again must give a program equal to it (and, where
the bytes are comparable, the same bytes).
PARTIAL: sampled over seeds; object identity, sharing and the dictionaries of the Context are
observed only through what the serialiser, the translators and the mutations read.
"""
import os
import pickle
import shutil
import tempfile
import time

import common as C
import tymodel as T
import ir2coq
import progs
import wholeprog as W


ENT = ["types", "funcs", "lambdas", "vars", "classes", "decls"]


def _ast_ids(p):
    """ids of every ast node reachable from the program's declarations"""
    seen, stack = set(), list(p.declarations)
    while stack:
        n = stack.pop()
        if n is None or id(n) in seen:
            continue
        seen.add(id(n))
        try:
            stack.extend(n.children())
        except Exception:       # noqa: BLE001
            pass
        for attr in ("fields", "functions", "superclasses", "params", "body", "type_parameters"):
            v = getattr(n, attr, None)
            if isinstance(v, (list, tuple)):
                stack.extend(x for x in v if hasattr(x, "children"))
            elif hasattr(v, "children"):
                stack.append(v)
    return seen


def ctx_node(ser, p):
    """The program's Context (the symbol table that is pickled with it) as one more subtree of the serialised program:
    kind 99 = context, 98 = namespace (num = its length, name = last component, kids = the path components then the
    entries), 96 = path component, 97 = entry (name = the key, num = 10 * entity kind + (1 when the value is an object of
    the program's own tree, i.e. sharing survived), kids = []); 95 = one line of the reverse lookup declaration ->
    namespace (sorted, since it is keyed by objects)."""
    ids = _ast_ids(p)
    ctx = p.context
    kids = []
    for ns, ents in ctx._context.items():
        comps = [(96, ser.nid(str(c)), 0, [], [], []) for c in ns]
        entries = []
        for k, e in enumerate(ENT):
            for name, val in ents[e].items():
                shared = 1 if id(val) in ids else 0
                entries.append((97, ser.nid(str(name)), 10 * k + shared, [], [], []))
        kids.append((98, ser.nid(str(ns[-1])) if ns else 0, len(ns), [], [], comps + entries))
    rev = []
    for val, ns in ctx._namespaces.items():
        if type(val).__module__.endswith(".types"):
            # keys that are types (type parameters) compare structurally and are modified in place after insertion, so two
            # of them may have become equal: which of the two entries a lookup finds is then arbitrary before AND after a
            # reload (the reload merges them) -- nothing the property speaks about; only declarations (identity keys) count
            continue
        rev.append((ser.nid(type(val).__name__), ser.nid(str(getattr(val, "name", None))), [ser.nid(str(c)) for c in ns]))
    rev.sort()
    rkids = [(95, a, b, [], [], [(96, c, 0, [], [], []) for c in cs]) for a, b, cs in rev]
    return (99, 0, len(kids), [], [], kids + rkids)


class _Names:
    def __init__(self):
        self.names = {}

    def nid(self, s):
        return self.names.setdefault(s, len(self.names) + 1)


def with_ctx(ser, p):
    n = ser.prog()
    return (n[0], n[1], n[2], n[3], n[4], list(n[5]) + [ctx_node(ser, p)])


def run(tier, seed, replay=None):
    rep = C.Report("C13", tier, seed, "translation_validation")
    C.setup_repo_import(seed, ["hephaestus.py", "--iterations", "1", "--language", "kotlin"])
    import src.args  # noqa: F401
    from src import utils as U
    from src.transformations.type_erasure import TypeErasure
    from src.transformations.type_overwriting import TypeOverwriting
    from src.translators.kotlin import KotlinTranslator
    from src.translators.java import JavaTranslator
    from src.translators.groovy import GroovyTranslator
    from src.translators.scala import ScalaTranslator
    TR = {"kotlin": KotlinTranslator, "java": JavaTranslator, "groovy": GroovyTranslator, "scala": ScalaTranslator}
    T.emit_generated()
    rows = progs.config_table()
    proof_ok = C.proof_part(rep, "IR/Properties_C13.v", ["Generated/Builtins.vo", "IR/Diff.vo", "IR/DiffProofs.vo"], ["IR", "Types", "Generated"])
    langs = {l: T.Lang(l) for l in T.LANGS}
    nper = int(os.environ.get("VERIF_C13_N", "4")) if tier == "quick" else 150
    tmpd = tempfile.mkdtemp(prefix="c13-")
    pairs = []          # (lang, seed, stage, L, nA, nB, serB)
    text_diff, bytes_unstable, redump_diff, crashes = [], [], [], []
    fuzz_done, fuzz_rejected, fuzz_unserialisable = [0], [0], [0]
    saved = {}
    t0 = time.time()

    def texts(p):
        out = {}
        for l2, cls in TR.items():
            try:
                # the Java and Groovy translators draw random numbers (known finding C11-groovy-rng); on trees of another
                # language even the outcome can depend on them, so both lineages are translated from the same random state
                U.random.r.seed(20260923)
                out[l2] = U.translate_program(cls("src.pkg", {}), p)
            except Exception as e:      # noqa: BLE001  (translating a program to a foreign language may fail: C18's subject)
                out[l2] = "EXC %s" % type(e).__name__
        return out

    try:
        import hephaestus as H          # the driver's own save_program (text + .bin) is what writes stored test cases
        saver = H.save_program
    except Exception:                   # noqa: BLE001
        saver = None

    def roundtrip(p, tag):
        path = os.path.join(tmpd, tag + ".bin")
        if saver is not None:
            saver(p, "// text", path[:-4])
        else:
            U.dump_program(path, p)
        q = U.load_program(path)
        return q, open(path, "rb").read()
    contract_jobs = []

    try:
        for lang in T.LANGS:
            L = langs[lang]
            for s in range(nper):
                sd = C.sub_seed(seed, "c13", lang, s) % (2 ** 31)
                progs.set_cfg(rows[0])
                try:
                    a = progs.generate(lang, sd)
                    b, _ = roundtrip(a, "g")
                    if s < (2 if tier == "quick" else 20):
                        keep = os.path.join(tmpd, "x-%s-%d.bin" % (lang, s))
                        shutil.copy(os.path.join(tmpd, "g.bin"), keep)
                        contract_jobs.append((lang, sd, keep))
                    prev_file, prev_tree = os.path.join(tmpd, "g.bin"), None
                    for stage in ("generated", "erased", "overwritten"):
                        if stage != "generated":
                            cls = TypeErasure if stage == "erased" else TypeOverwriting
                            # what --replay does: load the saved file, transform the loaded object ...
                            b = U.load_program(prev_file)
                            res = []
                            for prog_ in (a, b):
                                U.random.r.seed(sd + 17)
                                tr_ = cls(prog_, lang, None, {"timeout": 600})
                                tr_.transform()
                                res.append((tr_.result(), bool(tr_.is_transformed), getattr(tr_, "error_injected", None)))
                            (a, ta, ea), (b, tb, eb) = res
                            if (ta, ea) != (tb, eb):
                                text_diff.append((lang, sd, stage, "is_transformed / error_injected differ: %r vs %r" % ((ta, ea), (tb, eb))))
                            # ... and loading the same file once more, with no other load in between, must give the program saved
                            # then, although the object loaded from it first has been mutated (--replay with several iterations)
                            if prev_tree is not None:
                                again = U.load_program(prev_file)
                                sx = ir2coq.Ser(L, again)
                                sx.names, sx.classes, sx.tvars = dict(prev_names[0]), dict(prev_names[1]), dict(prev_names[2])
                                nx = with_ctx(sx, again)
                                pairs.append((lang, sd, prev_stage + "-loaded-again", L, prev_tree, nx))
                                saved[(lang, sd, prev_stage + "-loaded-again")] = pickle.dumps(again)
                            if saver is not None:
                                # the driver's flow: the SAME object is saved again right after it was mutated in place, with no
                                # other save in between (the previous save of this object closed the previous stage)
                                saver(a, "// text", os.path.join(tmpd, "drv-" + stage[0]))
                            b, _ = roundtrip(b, stage[0])
                            prev_file = os.path.join(tmpd, stage[0] + ".bin")
                        # the stage's comparison
                        sa = ir2coq.Ser(L, a)
                        na = with_ctx(sa, a)
                        sb = ir2coq.Ser(L, b)
                        sb.names, sb.classes, sb.tvars = dict(sa.names), dict(sa.classes), dict(sa.tvars)
                        nb = with_ctx(sb, b)
                        pairs.append((lang, sd, stage, L, na, nb))
                        saved[(lang, sd, stage)] = pickle.dumps(b)
                        if saver is not None:
                            # the driver's flow: the SAME object is saved after every stage (it was mutated in place in between);
                            # each file must hold the program as it was when that file was written
                            dpath = os.path.join(tmpd, "drv-" + stage[0])
                            if stage == "generated":
                                saver(a, "// text", dpath)
                            fa = U.load_program(dpath + ".bin")
                            sf = ir2coq.Ser(L, fa)
                            sf.names, sf.classes, sf.tvars = dict(sa.names), dict(sa.classes), dict(sa.tvars)
                            pairs.append((lang, sd, stage + "-as-saved-by-the-driver", L, na, with_ctx(sf, fa)))
                            saved[(lang, sd, stage + "-as-saved-by-the-driver")] = pickle.dumps(fa)
                        prev_tree, prev_stage, prev_names = nb, stage, (dict(sa.names), dict(sa.classes), dict(sa.tvars))
                        ta_, tb_ = texts(a), texts(b)
                        for l2 in TR:
                            if ta_[l2] != tb_[l2]:
                                text_diff.append((lang, sd, stage, "the %s text of the reloaded program differs" % l2))
                        # dumping the reloaded program again
                        c, bytes_b = roundtrip(b, "again")
                        _, bytes_c = roundtrip(c, "again2")
                        if bytes_b != bytes_c:
                            bytes_unstable.append((lang, sd, stage))
                        sc = ir2coq.Ser(L, c)
                        sc.names, sc.classes, sc.tvars = dict(sa.names), dict(sa.classes), dict(sa.tvars)
                        if with_ctx(sc, c) != nb:
                            redump_diff.append((lang, sd, stage))
                        if saver is not None:
                            saver(a, "// text", os.path.join(tmpd, "drv-end"))      # the last save of the stage is of the driver's object
                except Exception as e:          # noqa: BLE001
                    crashes.append((lang, sd, "%s: %s" % (type(e).__name__, str(e)[:150])))
        # directed stream: random trees of the real ast classes with real Contexts (the fuzzers of the translator models):
        # lambdas with local functions, nested classes of functions, empty namespaces ... shapes the generator rarely emits
        import random as _random
        import ir2print as P
        import ir2print_scala as PS
        import fuzz_java as FJ
        import fuzz_groovy as FG
        mk = {"kotlin": lambda r: P.Fuzz(r).program(), "scala": lambda r: PS.FuzzScala(r).program(),
              "java": lambda r: FJ.JFuzz(r).program(), "groovy": lambda r: FG.GFuzz(r).program()}
        nfz = int(os.environ.get("VERIF_C13_F", "15")) if tier == "quick" else 600
        for lang in T.LANGS:
            L = langs[lang]
            for s in range(nfz):
                sd = C.sub_seed(seed, "c13fuzz", lang, s) % (2 ** 31)
                try:
                    a = mk[lang](_random.Random(sd))
                    ta_ = texts(a)
                    if ta_[lang].startswith("EXC"):
                        fuzz_rejected[0] += 1
                        continue
                    b, _ = roundtrip(a, "f")
                    tb_ = texts(b)
                    fuzz_done[0] += 1
                    for l2 in TR:
                        if ta_[l2] != tb_[l2] and not (ta_[l2].startswith("EXC") and tb_[l2].startswith("EXC")):
                            saved[(lang, sd, "tree")] = pickle.dumps(b)
                            text_diff.append((lang, sd, "tree", "the %s text of the reloaded directed tree differs" % l2))
                    if ctx_node(_Names(), a) != ctx_node(_Names(), b):
                        saved[(lang, sd, "tree")] = pickle.dumps(b)
                        text_diff.append((lang, sd, "tree", "the symbol table (Context) of the reloaded directed tree differs"))
                    try:
                        sa = ir2coq.Ser(L, a)
                        na = with_ctx(sa, a)
                        sb = ir2coq.Ser(L, b)
                        sb.names, sb.classes, sb.tvars = dict(sa.names), dict(sa.classes), dict(sa.tvars)
                        pairs.append((lang, sd, "tree", L, na, with_ctx(sb, b)))
                        saved[(lang, sd, "tree")] = pickle.dumps(b)
                    except Exception:       # noqa: BLE001  (the IR serialiser is fail-closed on shapes the generator cannot produce)
                        fuzz_unserialisable[0] += 1
                except Exception as e:          # noqa: BLE001
                    crashes.append((lang, sd, "tree %s: %s" % (type(e).__name__, str(e)[:120])))
        # cross-process stream: what --replay does -- a NEW interpreter with ANOTHER hash seed loads the stored file; there the
        # loaded type objects must honour Python's contract with equal objects made in that process (== implies equal hashes,
        # membership in sets), or anything the loaded program is compared with or looked up in goes wrong
        import subprocess as _sp
        import sys as _sys
        import json as _json
        contract_bad, contract_types, contract_done = [], 0, 0
        for (lang, sd, keep) in contract_jobs:
            env = dict(os.environ, PYTHONHASHSEED=str(1 + sd % 1000))
            pr = _sp.run([_sys.executable, os.path.join(C.VERIF, "harness", "c13_child.py"), lang, keep, "0", "contract"], env=env,
                         stdout=_sp.PIPE, stderr=_sp.STDOUT, text=True, timeout=900)
            line = [l_ for l_ in pr.stdout.splitlines() if l_.startswith("C13CHILD ")]
            if not line:
                crashes.append((lang, sd, "child process: " + pr.stdout[-200:]))
                continue
            d_ = _json.loads(line[0][9:])
            if "error" in d_:
                crashes.append((lang, sd, "child process: " + d_["error"]))
                continue
            contract_done += 1
            contract_types += d_.get("types", 0)
            for msg in d_.get("bad", [])[:2]:
                contract_bad.append((lang, sd, msg))
                saved[(lang, sd, "generated-contract")] = open(keep, "rb").read()
    finally:
        shutil.rmtree(tmpd, ignore_errors=True)
    t_gen = time.time() - t0
    hdr = W.HDR.replace("IR.Check", "IR.Check IR.Diff IR.DiffProofs")
    per = 6

    def defs(idx):
        return "".join("Definition a%d : node := %s.\nDefinition b%d : node := %s.\n" % (j, ir2coq.coq_node(pairs[i][4]), j, ir2coq.coq_node(pairs[i][5]))
                       for j, i in enumerate(idx))
    # pass 1: the kernel certificates themselves (one theorem per pair); a file that fails is re-evaluated pair by pair
    cfiles = []
    for k in range(0, len(pairs), per):
        idx = list(range(k, min(k + per, len(pairs))))
        body = defs(idx) + "".join("Theorem reloaded_%d : a%d = b%d.\nProof. apply (proj1 (type_changes_nil_iff [] a%d b%d)). vm_compute. reflexivity. Qed.\n"
                                   % (j, j, j, j, j) for j in range(len(idx)))
        cfiles.append(("c13c_%d" % (k // per), hdr + body, idx))
    C.clean_cases("c13")
    res2 = C.run_case_files([(n_, t_) for n_, t_, _ in cfiles], timeout=1800)
    equal = {}
    ncert = 0
    retry = []
    for n_, t_, idx in cfiles:
        rc, out = res2[n_]
        if rc == 0:
            ncert += len(idx)
            for i in idx:
                equal[i] = True
        else:
            retry.append((n_.replace("c13c_", "c13e_"), idx))
    efiles = [(n_, hdr + defs(idx) + "\nEval vm_compute in [%s].\n" % "; ".join(
        "match type_changes [] a%d b%d with Some [] => 1 | _ => 0 end" % (j, j) for j in range(len(idx)))) for n_, idx in retry]
    res = C.run_case_files(efiles, timeout=1800) if efiles else {}
    for (n_, idx) in retry:
        rc, out = res[n_]
        if rc != 0:
            rep.violation("case-file", "case file %s did not evaluate: %s" % (n_, out[-500:]), dict(broken=n_, log=out[-3000:]), no_input=True)
            continue
        vals = C.parse_nat_list(C.parse_eval_outputs(out)[-1])
        for i, v in zip(idx, vals):
            equal[i] = (v == 1)
        if all(v == 1 for v in vals):
            rep.violation("certificate", "kernel did not accept the certificates of %s although the pairs evaluate as equal" % n_,
                          dict(broken=n_), no_input=True)
    C.clean_cases("c13")
    os.makedirs(os.path.join(C.REPLAYS, "C13"), exist_ok=True)

    def save(lang, sd, stage):
        binp = os.path.join(C.REPLAYS, "C13", "prog-%s-%d-%s.bin" % (lang, sd, stage))
        if (lang, sd, stage) in saved:
            open(binp, "wb").write(saved[(lang, sd, stage)])
        return binp
    for i, (lang, sd, stage, L, na, nb) in enumerate(pairs):
        if i in equal and not equal[i]:
            rep.violation("tree", "%s seed %d, stage %s: the program that was dumped and loaded (and mutated with the same random choices) is not "
                          "the program of the unsaved lineage" % (lang, sd, stage),
                          dict(lang=lang, seed=sd, stage=stage, program_bin=save(lang, sd, stage), shape="reloaded-tree-differs"))
    for (lang, sd, stage, what) in text_diff[:5]:
        rep.violation("text", "%s seed %d, stage %s: %s" % (lang, sd, stage, what),
                      dict(lang=lang, seed=sd, stage=stage, what=what, program_bin=save(lang, sd, stage), shape="reloaded-text-differs"))
    for (lang, sd, msg) in contract_bad[:5]:
        rep.violation("contract", "%s seed %d: loaded in a new interpreter with another hash seed, %s" % (lang, sd, msg),
                      dict(lang=lang, seed=sd, what=msg, program_bin=save(lang, sd, "generated-contract"), shape="reloaded-hash-contract"))
    for (lang, sd, stage) in redump_diff[:5]:
        rep.violation("redump", "%s seed %d, stage %s: dumping and loading the reloaded program again changes it" % (lang, sd, stage),
                      dict(lang=lang, seed=sd, stage=stage, program_bin=save(lang, sd, stage), shape="redump-differs"))
    if not proof_ok and not rep.violations:
        rep.violation("proof", rep.proof_broken, dict(broken=rep.proof_broken), no_input=True)
    rep.add(programs=len(pairs), evaluations=len(pairs), distinct_nontrivial=ncert, pairs_certified_in_kernel=ncert,
            disagreements_checked=sum(1 for v in equal.values() if not v) + len(text_diff) + len(redump_diff),
            cross_process_loads=contract_done, cross_process_type_objects_checked=contract_types, cross_process_contract_violations=len(contract_bad),
            saved_through="hephaestus.save_program" if saver is not None else "utils.dump_program",
            texts_compared=4 * len(pairs), text_differences=len(text_diff), redump_tree_differences=len(redump_diff),
            redump_bytes_not_identical=len(bytes_unstable), exceptions=len(crashes), exception_samples=[list(c) for c in crashes[:5]],
            generation_s=round(t_gen, 1),
            stage_histogram={st: sum(1 for p_ in pairs if p_[2] == st) for st in sorted({p_[2] for p_ in pairs})},
            directed_trees=fuzz_done[0], directed_trees_rejected_by_their_translator=fuzz_rejected[0],
            directed_trees_not_serialisable_for_the_tree_comparison=fuzz_unserialisable[0],
            rule="programs of the four languages; lineage A is never saved, lineage B goes through utils.dump_program / load_program at every "
                 "stage and is mutated from the reloaded object under the same random seed; per stage the kernel proves ser(A) = ser(B)",
            samples=[dict(lang=p_[0], seed=p_[1], stage=p_[2]) for p_ in pairs[:3]],
            trusted_base=C.TRUSTED_BASE_COMMON + ["harness/ir2coq.py serialiser: equality is equality of what it observes",
                                                  "pickle itself is not modelled"])
    rep.assumptions = ["redump_bytes_not_identical counts byte-level differences of a second dump (pickle memo order); they are reported as a "
                       "statistic, the verdict is on the reloaded programs"]
    return rep.finish()
