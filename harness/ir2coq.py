"""ast.Program -> generic IR tree (coq/IR/Syntax.v) with nominal types (coq/Types/Syntax.v).

Fail-closed: an unknown node class, or a type object of an unknown class, raises.
Node layout (kind, name id, num, flags, types, children) -- see coq/IR/Syntax.v.
"""
import common as C
import tymodel as T

K = dict(Program=0, ClassDecl=1, SuperInst=2, FieldDecl=3, FuncDecl=4, ParamDecl=5, VarDecl=6, Block=7,
         Lambda=8, Bottom=9, IntConst=10, RealConst=11, BoolConst=12, CharConst=13, StringConst=14,
         ArrayExpr=15, Variable=16, Conditional=17, Logical=18, Equality=19, Comparison=20, Arith=21,
         Is=22, New=23, FieldAccess=24, FunctionCall=25, CallArgument=26, FunctionReference=27, Assignment=28)


class Ser:
    def __init__(self, L, program):
        from src.ir import ast, types as tp
        self.ast, self.tp = ast, tp
        self.L = L
        self.program = program
        self.names = {}          # string -> id (>= 1)
        self.classes = {}        # class name -> cid
        self.tvars = {}          # type variable name -> id
        self.ntypes = 0
        self.nnodes = 0
        for d in program.declarations:
            if isinstance(d, ast.ClassDeclaration):
                self.classes[d.name] = len(self.classes) + 1
        if len(self.classes) >= 85:
            raise ValueError("too many classes for the id scheme")

    # ---------------- names
    def nid(self, s):
        if s is None:
            return 0
        if s not in self.names:
            self.names[s] = len(self.names) + 1
        return self.names[s]

    def tvid(self, s):
        if s not in self.tvars:
            self.tvars[s] = len(self.tvars) + 1
        return self.tvars[s]

    # ---------------- types
    def ty(self, t):
        tp = self.tp
        if t is None:
            return None
        self.ntypes += 1
        if t is tp.Nothing or type(t).__name__ == "NothingType" and not isinstance(t, tp.Builtin):
            return ("N",)
        if isinstance(t, tp.WildCardType):
            return ("W", t.variance.value, self.ty(t.bound))
        if isinstance(t, tp.TypeParameter):
            return ("V", self.tvid(t.name), t.variance.value, self.ty(t.bound))
        if isinstance(t, tp.ParameterizedType):
            return ("A", self.cid(t.t_constructor), [self.ty(a) for a in t.type_args])
        if isinstance(t, tp.TypeConstructor):
            return ("K", self.cid(t))
        if isinstance(t, tp.Builtin):
            return self.L.term_of_builtin(t)
        if type(t) is tp.SimpleClassifier:
            if t.name not in self.classes:
                raise ValueError("classifier %s is not a declared class" % t.name)
            return ("C", self.classes[t.name])
        raise ValueError("cannot serialise type %r of class %s" % (t, type(t).__name__))

    def cid(self, con):
        k = (type(con), con.name)
        if k in self.L.con_key:
            return self.L.con_key[k]
        if con.name.startswith("Function") and con.name[8:].isdigit():
            # function types of higher arity than the pre-built ones
            n = int(con.name[8:])
            raise ValueError("function type of arity %d" % n)
        if con.name not in self.classes:
            raise ValueError("constructor %s is not a declared class" % con.name)
        return self.classes[con.name]

    # ---------------- nodes
    def node(self, kind, name=None, num=0, flags=(), tys=(), kids=()):
        self.nnodes += 1
        return (K[kind], self.nid(name), num, list(flags), [self.ty(t) if not isinstance(t, tuple) else t for t in tys], list(kids))

    def prog(self):
        return self.node("Program", kids=[self.decl(d) for d in self.program.declarations])

    def decl(self, d):
        a = self.ast
        if isinstance(d, a.ClassDeclaration):
            return self.node("ClassDecl", d.name, d.class_type, [d.is_final],
                             [tp_ for tp_ in d.type_parameters],
                             [self.superinst(s) for s in d.superclasses] + [self.field(f) for f in d.fields] +
                             [self.func(f) for f in d.functions])
        if isinstance(d, a.FunctionDeclaration):
            return self.func(d)
        if isinstance(d, a.VariableDeclaration):
            return self.var(d)
        raise ValueError("unknown declaration %s" % type(d).__name__)

    def superinst(self, s):
        return self.node("SuperInst", None, 0, [s.args is not None], [s.class_type],
                         [self.expr(x) for x in (s.args or [])])

    def field(self, f):
        return self.node("FieldDecl", f.name, 0, [f.is_final, f.can_override, f.override], [f.field_type])

    def func(self, f):
        body = []
        if f.body is not None:
            body = [self.expr(f.body)]
        return self.node("FuncDecl", f.name, len(f.params),
                         [f.is_final, f.override, f.func_type == f.CLASS_METHOD, f.body is not None],
                         [self.opt(f.ret_type), self.opt(f.inferred_type)] + [self.ty(t) for t in f.type_parameters],
                         [self.param(p) for p in f.params] + body)

    def opt(self, t):
        """a type slot that may be absent: encoded by the serialised None"""
        return ("none",) if t is None else self.ty(t)

    def param(self, p):
        return self.node("ParamDecl", p.name, 0, [p.vararg, p.default is not None], [p.param_type],
                         [self.expr(p.default)] if p.default is not None else [])

    def var(self, v):
        return self.node("VarDecl", v.name, 0, [v.is_final], [self.opt(v.var_type), self.opt(v.inferred_type)],
                         [self.expr(v.expr)])

    def expr(self, e):
        a = self.ast
        if isinstance(e, a.Block):
            return self.node("Block", None, 0, [e.is_func_block], [], [self.stmt(x) for x in e.body])
        if isinstance(e, a.BottomConstant):
            return self.node("Bottom", None, 0, [], [self.opt(e.t)])
        if isinstance(e, a.IntegerConstant):
            return self.node("IntConst", str(e.literal), 0, [], [e.integer_type])
        if isinstance(e, a.RealConstant):
            return self.node("RealConst", str(e.literal), 0, [], [e.real_type])
        if isinstance(e, a.BooleanConstant):
            return self.node("BoolConst", str(e.literal))
        if isinstance(e, a.CharConstant):
            return self.node("CharConst", str(e.literal))
        if isinstance(e, a.StringConstant):
            return self.node("StringConst", str(e.literal))
        if isinstance(e, a.ArrayExpr):
            return self.node("ArrayExpr", None, e.length, [], [e.array_type], [self.expr(x) for x in e.exprs])
        if isinstance(e, a.Variable):
            return self.node("Variable", e.name)
        if isinstance(e, a.Conditional):
            return self.node("Conditional", None, 0, [], [self.opt(e.inferred_type)],
                             [self.expr(e.cond), self.expr(e.true_branch), self.expr(e.false_branch)])
        if isinstance(e, a.Is):
            return self.node("Is", None, 0, [e.operator.is_not], [e.rexpr], [self.expr(e.lexpr)])
        for cls, kind in ((a.LogicalExpr, "Logical"), (a.EqualityExpr, "Equality"),
                          (a.ComparisonExpr, "Comparison"), (a.ArithExpr, "Arith")):
            if isinstance(e, cls):
                return self.node(kind, e.operator.name, 0, [e.operator.is_not], [],
                                 [self.expr(e.lexpr), self.expr(e.rexpr)])
        if isinstance(e, a.New):
            ci = bool(getattr(e.class_type, "can_infer_type_args", False))
            return self.node("New", None, 0, [ci], [e.class_type], [self.expr(x) for x in e.args])
        if isinstance(e, a.FieldAccess):
            return self.node("FieldAccess", e.field, 0, [], [], [self.expr(e.expr)])
        if isinstance(e, a.FunctionCall):
            kids = ([self.expr(e.receiver)] if e.receiver is not None else []) + [self.callarg(x) for x in e.args]
            return self.node("FunctionCall", e.func, len(e.args),
                             [e.is_ref_call, bool(e.can_infer_type_args), e.receiver is not None],
                             list(e.type_args or []), kids)
        if isinstance(e, a.FunctionReference):
            return self.node("FunctionReference", e.func, 0, [e.receiver is not None], [e.signature],
                             [self.expr(e.receiver)] if e.receiver is not None else [])
        if isinstance(e, a.Assignment):
            kids = ([self.expr(e.receiver)] if e.receiver is not None else []) + [self.expr(e.expr)]
            return self.node("Assignment", e.name, 0, [e.receiver is not None], [], kids)
        if isinstance(e, a.Lambda):
            body = [self.expr(e.body)] if e.body is not None else []
            return self.node("Lambda", e.name, len(e.params), [e.body is not None],
                             [self.opt(e.ret_type), self.opt(e.signature)],
                             [self.param(p) for p in e.params] + body)
        if isinstance(e, a.CallArgument):
            return self.callarg(e)
        return self.stmt(e)

    def callarg(self, x):
        return self.node("CallArgument", x.name, 0, [], [], [self.expr(x.expr)])

    def stmt(self, s):
        a = self.ast
        if isinstance(s, a.VariableDeclaration):
            return self.var(s)
        if isinstance(s, a.FunctionDeclaration):
            return self.func(s)
        if isinstance(s, a.ClassDeclaration):
            return self.decl(s)
        if isinstance(s, a.Expr) or isinstance(s, a.Block):
            return self.expr(s)
        raise ValueError("unknown node %s" % type(s).__name__)


def coq_ty_opt(t):
    if t is None or t == ("none",):
        return "None"
    return "(Some %s)" % T.cterm(fix_none(t))


def fix_none(t):
    """nested None bounds are already None in tymodel terms"""
    return t


def coq_node(n):
    kind, name, num, flags, tys, kids = n
    return "(N %d %d %d %s %s %s)" % (kind, name, num, C.clist(flags, C.cbool), C.clist(tys, coq_ty_opt),
                                      C.clist(kids, coq_node))


def node_count(n):
    return 1 + sum(node_count(k) for k in n[5])


def node_depth(n):
    return 1 + max([node_depth(k) for k in n[5]] + [0])
