"""Worker of C18's command-line stream: one process = one session of the REAL driver code under REAL command-line options.

usage: c18_cli.py <language> <n programs> <seed> [hephaestus options ...]      (PYTHONPATH = /repo's tree + harness)

The options go through src/args.py exactly as on the command line; then, per program, what hephaestus._run does is done with
hephaestus's own functions: reset_word_pool at the start of every batch, two package words, gen_program(pid, dirname, packages)
-- generation, the transformation schedule, fault injection, translation and saving of every file.  The only differences to
`hephaestus.py --dry-run` are that the random stream is seeded per program (replayable) and that the result of gen_program is
looked at (a dry run drops it).  Prints one JSON object: programs, failures [{pid, seed, error (with traceback)}].
"""
import json
import os
import signal
import shutil
import sys
import tempfile


def main():
    lang, n, seed = sys.argv[1], int(sys.argv[2]), int(sys.argv[3])
    flags = sys.argv[4:]
    bugs = tempfile.mkdtemp(prefix="c18cli-")
    sys.argv = ["hephaestus.py", "--bugs", bugs, "--name", "s", "--language", lang, "--iterations", str(n), "--dry-run",
                "--batch", "10", "-S"] + flags
    import faulthandler
    import random
    faulthandler.register(signal.SIGUSR1, all_threads=True)       # kill -USR1 <pid> prints where a slow session is
    random.seed(seed)
    out = dict(language=lang, flags=flags, programs=0, failures=[], over_limit=[], limit_s=LIMIT)
    try:
        import hephaestus as H
        from src import utils
        H.validate_args(H.cli_args)
        H.pre_process_args(H.cli_args)
        devnull = open(os.devnull, "w")
        pid = 1
        stop = False
        while pid <= n and not stop:
            utils.random.reset_word_pool()
            tmpdir = tempfile.mkdtemp(prefix="c18cli-b-")
            try:
                for _ in range(min(10, n - pid + 1)):
                    sd = (seed * 1000003 + pid) % (2 ** 31)
                    utils.random.r.seed(sd)
                    if os.environ.get("C18CLI_PROGRESS"):
                        sys.stderr.write("program %d seed %d\n" % (pid, sd))
                        sys.stderr.flush()
                    packages = (utils.random.word(), utils.random.word())
                    try:
                        old = sys.stdout
                        sys.stdout = devnull
                        signal.signal(signal.SIGALRM, _alarm)
                        signal.alarm(LIMIT)
                        try:
                            res = H.gen_program(pid, os.path.join(tmpdir, "src"), packages)
                        finally:
                            signal.alarm(0)
                            sys.stdout = old
                        if res.failed and "WorkLimit: program not finished" in str(res.stats.get("error")):
                            # slow, not failed: the deep copies of type constructors make some programs take minutes; that is
                            # reported as a statistic (a limit on wall time is no verdict about termination)
                            out["over_limit"].append(dict(pid=pid, seed=sd))
                            # the interrupt may have hit shared type objects in the middle of an update: this process generates
                            # nothing more
                            stop = True
                        elif res.failed:
                            out["failures"].append(dict(pid=pid, seed=sd, error=str(res.stats.get("error"))[-1500:]))
                    except BaseException as e:      # noqa: BLE001  (gen_program catches Exception itself)
                        out["failures"].append(dict(pid=pid, seed=sd, error="%s escaped gen_program: %s" % (type(e).__name__, str(e)[:300])))
                        if isinstance(e, KeyboardInterrupt):
                            raise
                    out["programs"] += 1
                    pid += 1
                    if stop:
                        break
            finally:
                shutil.rmtree(tmpdir, ignore_errors=True)
    finally:
        shutil.rmtree(bugs, ignore_errors=True)
    print("C18CLI " + json.dumps(out))


LIMIT = int(os.environ.get("C18CLI_LIMIT", "40"))      # seconds of wall time per program (a program normally takes about one)


class WorkLimit(Exception):
    pass


def _alarm(signum, frame):
    raise WorkLimit("program not finished after %d s" % LIMIT)


if __name__ == "__main__":
    main()
