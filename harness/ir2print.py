"""ast.Program -> the printing-oriented tree of coq/IR/PrintKotlin.v (pprogram / pnode / ptype).

One PN per object the translator visits; the children are exactly node.children() as the
implementation computes them; the kind carries the attributes kotlin.py reads.
Fail-closed: an unknown node class or type class, or a node whose Python truthiness differs
from the `is not None` reading the model uses, raises SerError.

tu.is_sam is not modelled in Coq: the serialiser evaluates the real is_sam for every class of
the program's context and emits the table of SAM class names (pprogram.sams).
"""
import common as C


class SerError(Exception):
    pass


SAFE = set(range(32, 127)) | {10}


def cstr(s):
    """Coq term of type string for the UTF-8 bytes of s (literal runs for printable ASCII and
    newline, explicit ascii_of_nat for everything else)."""
    if not isinstance(s, str):
        raise SerError("not a str: %r" % (s,))
    b = s.encode("utf-8")
    if all(c in SAFE for c in b):
        return '"' + s.replace('"', '""') + '"'
    parts, run = [], bytearray()
    for c in b:
        if c in SAFE:
            run.append(c)
        else:
            if run:
                parts.append('"' + run.decode("ascii").replace('"', '""') + '"')
                run = bytearray()
            parts.append("(String (ascii_of_nat %d) EmptyString)" % c)
    if run:
        parts.append('"' + run.decode("ascii").replace('"', '""') + '"')
    return "(" + " ++ ".join(parts) + ")%string"


def cbool(b):
    if b is not True and b is not False:
        raise SerError("not a bool: %r" % (b,))
    return "true" if b else "false"


def copt(x, f):
    return "None" if x is None else "(Some %s)" % f(x)


def clist(xs):
    return "[" + "; ".join(xs) + "]"


class PSer:
    def __init__(self, program):
        from src.ir import ast, types as tp, kotlin_types as kt, type_utils as tu
        self.ast, self.tp, self.kt, self.tu = ast, tp, kt, tu
        self.program = program
        self.nnodes = 0
        self.ntypes = 0
        self.kinds = {}
        self.exact = {kt.UnitType: "CUnit", kt.LongType: "CLong", kt.ShortType: "CShort",
                      kt.ByteType: "CByte", kt.NumberType: "CNumber", kt.FloatType: "CFloat"}
        ctx = program.context
        self.classes = ctx.get_classes(("global",), glob=True)
        # is_sam is evaluated on a COPY: ClassDeclaration.get_abstract_functions (reached from
        # is_sam) reassigns the bound of type parameters that belong to the program
        import pickle
        shadow = pickle.loads(pickle.dumps(program)).context
        self.sam_names = [name for name, d in shadow.get_classes(("global",), glob=True).items()
                          if tu.is_sam(shadow, cls_decl=d)]
        for name, d in self.classes.items():
            if d.name != name:
                raise SerError("class registered under another name: %s / %s" % (name, d.name))

    # ------------------------------------------------------------------ types
    def ty(self, t):
        tp = self.tp
        self.ntypes += 1
        if isinstance(t, tp.WildCardType):
            if not t.is_wildcard():
                raise SerError("WildCardType.is_wildcard() is false")
            return "(TWild %d %s)" % (self.variance(t.variance), copt(t.bound, self.ty))
        if not isinstance(t, tp.Type):
            raise SerError("not a type: %r (%s)" % (t, type(t).__name__))
        if t.is_wildcard():
            raise SerError("non-WildCardType whose is_wildcard() holds: %s" % type(t).__name__)
        if isinstance(t, tp.ParameterizedType):
            con = t.t_constructor
            if not con:
                raise SerError("falsy t_constructor")
            spec = isinstance(con, self.kt.SpecializedArrayType)
            if spec and len(t.type_args) < 1:
                raise SerError("specialized array without argument")
            ci = getattr(t, "can_infer_type_args", None) is True
            return "(TApp %s %s %s %s)" % (cstr(t.name), cbool(spec), cbool(ci),
                                           clist([self.ty(a) for a in t.type_args]))
        if getattr(t, "t_constructor", None):
            raise SerError("t_constructor on a non-parameterized type %s" % type(t).__name__)
        name = t.get_name()
        if name != str(t.name):
            raise SerError("get_name() is not the name for %s" % type(t).__name__)
        if type(t) in self.exact:
            cls = self.exact[type(t)]
        elif isinstance(t, tp.Builtin):
            cls = "CBuiltin"
        elif isinstance(t, tp.SimpleClassifier):
            cls = "CSimple"
        elif isinstance(t, (tp.TypeParameter, tp.TypeConstructor, tp.Object, tp.NothingType)):
            cls = "COther"
        else:
            raise SerError("cannot serialise type %r of class %s" % (t, type(t).__name__))
        return "(TName %s %s)" % (cls, cstr(name))

    def variance(self, v):
        if type(v) is not self.tp.Variance or not isinstance(v.value, int) or v.value < 0:
            raise SerError("variance %r" % (v,))
        return v.value

    def oty(self, t):
        return copt(t, self.ty)

    def truthy_is_present(self, x, what):
        if bool(x) != (x is not None):
            raise SerError("truthiness of %s differs from `is not None`" % what)
        return x is not None

    # ------------------------------------------------------------------ nodes
    def node(self, n):
        a, tp = self.ast, self.tp
        self.nnodes += 1
        cls = n.__class__
        self.kinds[cls.__name__] = self.kinds.get(cls.__name__, 0) + 1
        kids = list(n.children())
        if cls is a.Block:
            k = "KBlock %s" % cbool(n.is_func_block)
        elif cls is a.SuperClassInstantiation:
            if n.class_type is None:
                raise SerError("super instantiation without class type")
            k = "KSuper %s %s" % (self.ty(n.class_type), cbool(n.args is None))
        elif cls is a.ClassDeclaration:
            if self.classes.get(n.name) is not n:
                raise SerError("class declaration %s is not the context's class of that name" % n.name)
            if n.class_type not in (0, 1, 2):
                raise SerError("class_type %r" % (n.class_type,))
            k = "KClass %s %d %s %d %d %d" % (cstr(n.name), n.class_type, cbool(bool(n.is_final)),
                                               len(n.fields), len(n.superclasses), len(n.functions))
        elif cls is tp.TypeParameter:
            k = "KTypeParam %s %d %s" % (cstr(n.name), self.variance(n.variance), self.oty(n.bound))
            if n.variance_to_string() != {1: "out", 2: "in"}.get(n.variance.value, ""):
                raise SerError("variance_to_string")
        elif cls is a.VariableDeclaration:
            if n.inferred_type is None:
                raise SerError("variable without inferred type")
            k = "KVarDecl %s %s %s %s" % (cstr(n.name), cbool(bool(n.is_final)), self.oty(n.var_type),
                                          self.ty(n.inferred_type))
        elif cls is a.CallArgument:
            k = "KCallArg %s" % copt(n.name, cstr)
        elif cls is a.FieldDeclaration:
            k = "KField %s %s %s %s %s" % (cstr(n.name), self.ty(n.field_type), cbool(bool(n.is_final)),
                                           cbool(bool(n.can_override)), cbool(bool(n.override)))
        elif cls is a.ParameterDeclaration:
            k = "KParam %s %s %s" % (cstr(n.name), self.ty(n.param_type), cbool(bool(n.vararg)))
        elif cls is a.FunctionDeclaration:
            hb = self.truthy_is_present(n.body, "FunctionDeclaration.body")
            if n.ret_type is not None and not n.ret_type:
                raise SerError("falsy ret_type")
            k = "KFunc %s %s %s %s %s %s %d %d" % (cstr(n.name), self.oty(n.ret_type), self.ty(n.get_type()),
                                                   cbool(bool(n.is_final)), cbool(bool(n.override)), cbool(hb),
                                                   len(n.params), len(n.type_parameters))
        elif cls is a.Lambda:
            hb = self.truthy_is_present(n.body, "Lambda.body")
            if n.ret_type is not None and not n.ret_type:
                raise SerError("falsy ret_type")
            if n.get_type() is not n.ret_type:
                raise SerError("Lambda.get_type() is not ret_type")
            k = "KLambda %s %d %s" % (self.oty(n.ret_type), len(n.params), cbool(hb))
        elif cls is a.BottomConstant:
            if n.t is not None and not n.t:
                raise SerError("falsy bottom type")
            k = "KBottom %s" % self.oty(n.t)
        elif cls is a.IntegerConstant:
            k = "KInt %s %s" % (cstr(str(n.literal)), self.oty(n.integer_type))
        elif cls is a.RealConstant:
            k = "KReal %s %s" % (cstr(str(n.literal)), self.oty(n.real_type))
        elif cls is a.CharConstant:
            k = "KChar %s" % cstr("{}".format(n.literal))
        elif cls is a.StringConstant:
            k = "KString %s" % cstr("{}".format(n.literal))
        elif cls is a.BooleanConstant:
            k = "KBool %s" % cstr(str(n.literal))
        elif cls is a.ArrayExpr:
            if not isinstance(n.array_type, tp.ParameterizedType) or len(n.array_type.type_args) < 1:
                raise SerError("array type is not parameterized")
            ln = n.length
            if ln is None:
                ln = 0
            if not isinstance(ln, int) or isinstance(ln, bool) or ln < 0:
                raise SerError("array length %r" % (ln,))
            k = "KArray %s %d" % (self.ty(n.array_type), ln)
        elif cls is a.Variable:
            k = "KVariable %s" % cstr(n.name)
        elif cls in (a.LogicalExpr, a.EqualityExpr, a.ComparisonExpr, a.ArithExpr):
            c = {a.LogicalExpr: "BLogical", a.EqualityExpr: "BEquality", a.ComparisonExpr: "BComparison",
                 a.ArithExpr: "BArith"}[cls]
            k = "KBinOp %s %s" % (c, self.op(n.operator))
        elif cls is a.Conditional:
            k = "KCond"
        elif cls is a.Is:
            k = "KIs %s %s" % (self.op(n.operator), self.ty(n.rexpr))
        elif cls is a.New:
            k = "KNew %s" % self.ty(n.class_type)
        elif cls is a.FieldAccess:
            k = "KFieldAccess %s" % cstr(n.field)
        elif cls is a.FunctionReference:
            k = "KFuncRef %s" % cstr(n.func)
        elif cls is a.FunctionCall:
            hr = self.truthy_is_present(n.receiver, "FunctionCall.receiver")
            k = "KFuncCall %s %s %s %s" % (cstr(n.func), clist([self.ty(t) for t in n.type_args]),
                                           cbool(n.can_infer_type_args), cbool(hr))
        elif cls is a.Assignment:
            hr = self.truthy_is_present(n.receiver, "Assignment.receiver")
            k = "KAssign %s %s" % (cstr(n.name), cbool(hr))
        else:
            raise SerError("unknown node class %s" % cls.__name__)
        return "(PN (%s) %s)" % (k, clist([self.node(c) for c in kids]))

    def op(self, o):
        if type(o) is not self.ast.Operator or not isinstance(o.name, str):
            raise SerError("operator %r" % (o,))
        if str(o) != ("!" if o.is_not else "") + o.name:
            raise SerError("str(operator)")
        return "%s %s" % (cstr(o.name), cbool(bool(o.is_not)))

    def prog(self):
        if type(self.program) is not self.ast.Program:
            raise SerError("not a Program")
        return "(mkProgram %s %s)" % (clist([cstr(x) for x in self.sam_names]),
                                      clist([self.node(d) for d in self.program.children()]))


HEADER = (C.CASE_HEADER + "From Coq Require Import String Ascii List Arith Bool.\nImport ListNotations.\n"
          "From Heph Require Import IR.PrintKotlin.\nOpen Scope string_scope.\nOpen Scope list_scope.\n")


def first_diff(a, b):
    n = min(len(a), len(b))
    for i in range(n):
        if a[i] != b[i]:
            return i
    return n if len(a) != len(b) else -1


# ---------------------------------------------------------------------------------------------
# Directed stream: random trees of the real ast / types classes (NOT well-typed programs; the
# translators do not look at typing).  They reach the visit_* branches the generator hits rarely
# or never: Is, arithmetic, star projections, lambdas in every position, expression bodies,
# nested blocks, named arguments, every modifier combination.  Drawn from one random.Random.

class Fuzz:
    def __init__(self, rng, sam_names=()):
        from src.ir import ast, types as tp, kotlin_types as kt, context as ctx
        self.ast, self.tp, self.kt, self.ctx = ast, tp, kt, ctx
        self.r = rng
        self.n = 0
        self.class_names = []
        self.class_tparams = {}
        self.words = ["x", "foo", "bar", "baz", "qux", "item", "count", "node", "value", "acc"]

    def name(self, p="v"):
        self.n += 1
        return "%s%s%d" % (p, self.r.choice(self.words), self.n)

    def ty(self, d=0):
        r, tp, kt = self.r, self.tp, self.kt
        c = r.random()
        if c < 0.4 or d > 2:
            return r.choice([kt.Any, kt.Unit, kt.Number, kt.Integer, kt.Short, kt.Long, kt.Byte, kt.Float, kt.Double,
                             kt.Char, kt.String, kt.Boolean, tp.TypeParameter("T"),
                             tp.TypeParameter("U", tp.Covariant, kt.Number)])
        if c < 0.55 and self.class_names:
            nm = r.choice(self.class_names)
            if self.class_tparams[nm]:
                con = tp.TypeConstructor(nm, self.class_tparams[nm])
                t = tp.ParameterizedType(con, [self.targ(d + 1) for _ in self.class_tparams[nm]])
                if r.random() < 0.3:
                    t.can_infer_type_args = True
                return t
            return tp.SimpleClassifier(nm)
        if c < 0.7:
            return r.choice([kt.DoubleArray, kt.FloatArray, kt.LongArray, kt.IntegerArray, kt.ShortArray, kt.ByteArray,
                             kt.CharArray, kt.BooleanArray])
        if c < 0.85:
            return kt.Array.new([self.targ(d + 1)])
        n = r.randint(0, 2)
        return kt.FunctionType(n).new([self.ty(d + 1) for _ in range(n + 1)])

    def targ(self, d):
        r, tp = self.r, self.tp
        c = r.random()
        if c < 0.15:
            return tp.WildCardType()
        if c < 0.3:
            return tp.WildCardType(self.ty(d), tp.Covariant)
        if c < 0.4:
            return tp.WildCardType(self.ty(d), tp.Contravariant)
        if c < 0.45:
            return tp.WildCardType(tp.WildCardType(self.ty(d), tp.Covariant), tp.Covariant)
        return self.ty(d)

    def array_ty(self):
        r, kt = self.r, self.kt
        if r.random() < 0.5:
            return r.choice([kt.DoubleArray, kt.FloatArray, kt.LongArray, kt.IntegerArray, kt.ShortArray, kt.ByteArray,
                             kt.CharArray, kt.BooleanArray])
        return kt.Array.new([self.targ(1)])

    def block(self, d, func_block=None):
        r = self.r
        return self.ast.Block([self.stmt(d + 1) for _ in range(r.randint(0, 3))],
                              is_func_block=r.random() < 0.5 if func_block is None else func_block)

    def body(self, d):
        return self.block(d, True) if self.r.random() < 0.6 else self.expr(d + 1)

    def params(self, d):
        r, a = self.r, self.ast
        ps = []
        for _ in range(r.randint(0, 2)):
            va = r.random() < 0.2
            pt = self.array_ty() if va and r.random() < 0.8 else self.ty()
            ps.append(a.ParameterDeclaration(self.name("p"), pt, vararg=va,
                                             default=self.expr(d + 2) if r.random() < 0.2 else None))
        return ps

    def tparams(self):
        r, tp = self.r, self.tp
        return [tp.TypeParameter(self.name("T").capitalize(), r.choice([tp.Invariant, tp.Covariant, tp.Contravariant]),
                                 self.ty(1) if r.random() < 0.4 else None) for _ in range(r.randint(0, 2))]

    def func(self, d, method=False):
        r, a = self.r, self.ast
        rt = self.ty()
        abstract = method and r.random() < 0.25
        f = a.FunctionDeclaration(self.name("f"), self.params(d), rt, None if abstract else self.body(d),
                                  a.FunctionDeclaration.CLASS_METHOD if method else a.FunctionDeclaration.FUNCTION,
                                  is_final=r.random() < 0.6, override=r.random() < 0.2, type_parameters=self.tparams())
        if r.random() < 0.3:
            f.omit_type()
        return f

    def var(self, d):
        r, a = self.r, self.ast
        t = self.ty()
        v = a.VariableDeclaration(self.name("v"), self.expr(d + 1), is_final=r.random() < 0.5, var_type=t)
        if r.random() < 0.4:
            v.omit_type()
        return v

    def stmt(self, d):
        c = self.r.random()
        if c < 0.25:
            return self.var(d)
        if c < 0.32 and d < 4:
            return self.func(d)
        return self.expr(d)

    def lam(self, d):
        r, a = self.r, self.ast
        ps = [a.ParameterDeclaration(self.name("p"), self.ty()) for _ in range(r.randint(0, 2))]
        rt = self.ty() if r.random() < 0.9 else None
        return a.Lambda(self.name("lambda"), ps, rt, self.body(d), self.ty())

    def leaf(self):
        r, a, kt = self.r, self.ast, self.kt
        c = r.randint(0, 7)
        if c == 0:
            return a.IntegerConstant(r.randint(-100, 100), r.choice([kt.Integer, kt.Long, kt.Short, kt.Byte, kt.Number, None]))
        if c == 1:
            return a.RealConstant(r.choice(["1.5", "-2.25", "0.0"]), r.choice([kt.Float, kt.Double]))
        if c == 2:
            return a.BooleanConstant(r.choice(["true", "false"]))
        if c == 3:
            return a.CharConstant(r.choice("abcXYZ019"))
        if c == 4:
            return a.StringConstant(r.choice(self.words))
        if c == 5:
            return a.BottomConstant(self.ty() if r.random() < 0.7 else None)
        return a.Variable(self.name("u"))

    def args(self, d):
        return [self.expr(d + 1) for _ in range(self.r.randint(0, 2))]

    def expr(self, d):
        r, a = self.r, self.ast
        if d > 4 or r.random() < 0.25:
            return self.leaf()
        c = r.randint(0, 15)
        if c == 0:
            n = r.randint(0, 2)
            return a.ArrayExpr(self.array_ty(), n, [self.expr(d + 1) for _ in range(n)])
        if c == 1:
            return a.LogicalExpr(self.expr(d + 1), self.expr(d + 1), r.choice(a.LogicalExpr.ALL_OPERATORS))
        if c == 2:
            return a.EqualityExpr(self.expr(d + 1), self.expr(d + 1), r.choice(a.EqualityExpr.ALL_OPERATORS))
        if c == 3:
            return a.ComparisonExpr(self.expr(d + 1), self.expr(d + 1), r.choice(a.ComparisonExpr.ALL_OPERATORS))
        if c == 4:
            return a.ArithExpr(self.expr(d + 1), self.expr(d + 1), r.choice(a.ArithExpr.ALL_OPERATORS))
        if c == 5:
            return a.Conditional(self.expr(d + 1), self.block(d, False) if r.random() < 0.7 else self.expr(d + 1),
                                 self.block(d, False) if r.random() < 0.7 else self.expr(d + 1), self.ty())
        if c == 6:
            return a.Is(self.expr(d + 1), self.ty(), r.random() < 0.5)
        if c == 7:
            return a.New(self.ty(), self.args(d))
        if c == 8:
            return a.FieldAccess(self.expr(d + 1), self.name("fld"))
        if c in (9, 10):
            cargs = [a.CallArgument(e, self.name("n") if r.random() < 0.3 else None) for e in self.args(d)]
            fc = a.FunctionCall(self.name("call"), cargs, self.expr(d + 1) if r.random() < 0.5 else None,
                                [self.ty() for _ in range(r.randint(0, 2))])
            fc.can_infer_type_args = r.random() < 0.4
            return fc
        if c == 11:
            return a.FunctionReference(self.name("ref"), self.expr(d + 1) if r.random() < 0.6 else None, self.ty())
        if c == 12:
            return a.Assignment(self.name("w"), self.expr(d + 1), self.expr(d + 1) if r.random() < 0.5 else None)
        if c in (13, 14):
            return self.lam(d)
        return self.block(d)

    def cls(self):
        r, a, tp = self.r, self.ast, self.tp
        name = self.name("C").capitalize()
        tps = self.tparams()
        supers = []
        for _ in range(r.randint(0, 2)):
            st = self.ty()
            if isinstance(st, tp.AbstractType):
                continue
            supers.append(a.SuperClassInstantiation(st, None if r.random() < 0.4 else self.args(1)))
        fields = [a.FieldDeclaration(self.name("fl"), self.ty(), is_final=r.random() < 0.5, can_override=r.random() < 0.3,
                                     override=r.random() < 0.3) for _ in range(r.randint(0, 2))]
        funcs = [self.func(1, True) for _ in range(r.randint(0, 3))]
        c = a.ClassDeclaration(name, supers, r.choice([0, 1, 2]), fields, funcs, is_final=r.random() < 0.5,
                               type_parameters=tps)
        self.class_names.append(name)
        self.class_tparams[name] = tps
        return c

    def program(self):
        a = self.ast
        p = a.Program(self.ctx.Context(), "kotlin")
        for _ in range(self.r.randint(2, 6)):
            c = self.r.random()
            d = self.cls() if c < 0.45 else (self.func(0) if c < 0.8 else self.var(0))
            p.add_declaration(d)
        return p


class SamOracle:
    """Replaces tu.is_sam by a table lookup (the implementation's own is_sam never holds on this
    tree: get_callable_functions counts the abstract functions too).  Used ONLY by the directed
    stream, to exercise the translator's SAM-dependent branches against the model's."""

    def __init__(self, names):
        from src.ir import type_utils as tu, types as tp
        self.tu, self.tp = tu, tp
        self.names = set(names)
        self.saved = None

    def __call__(self, context, etype=None, cls_decl=None):
        if etype:
            if isinstance(etype, (self.tp.SimpleClassifier, self.tp.ParameterizedType)):
                d = context.get_classes(("global",), glob=True).get(etype.name, None)
                return bool(d) and d.name in self.names
        elif cls_decl:
            return cls_decl.name in self.names
        return False

    def __enter__(self):
        self.saved = self.tu.is_sam
        self.tu.is_sam = self
        return self

    def __exit__(self, *a):
        self.tu.is_sam = self.saved


class GenTimeout(Exception):
    pass


def with_timeout(secs, fn, *args):
    """run fn(*args) in the main thread, abandoning it after `secs` seconds (some generator seeds
    take a minute); raises GenTimeout"""
    import signal

    def onalarm(signum, frame):
        raise GenTimeout()

    old = signal.signal(signal.SIGALRM, onalarm)
    signal.setitimer(signal.ITIMER_REAL, secs)
    try:
        return fn(*args)
    finally:
        signal.setitimer(signal.ITIMER_REAL, 0)
        signal.signal(signal.SIGALRM, old)
