"""C09, model correspondence of the searches.

The real `_find_types` (hence find_subtypes / find_supertypes) and `find_irrelevant_type` of
/repo/src/ir/type_utils.py are run on random class tables; every call -- the ones the check
issues and the ones the searches issue recursively -- is recorded together with the values its
randomised helpers returned (`_construct_related_types`, `instantiate_type_constructor` inside
`to_type`, `choose_type`, `utils.random.choice(available_types)`,
`get_irrelevant_parameterized_type`).  The Coq model (Types/Search.v) is then evaluated on the
same (table, types, query, flags) with the recorded values as oracle answers and the results
are compared (Types/SearchCorr.v): find results as sets of the same size, the irrelevant type
exactly.  The wrappers only log: they do not change what the real functions compute or draw.
"""
import inspect

import common as C
import tymodel as T

CODE_KIND = {1: "search-model-differs", 2: "search-model-raises", 3: "search-code-raises",
             4: "search-oracle-incomplete"}
_UNSET = object()


class Recorder:
    """Call recorder for the searches of src.ir.type_utils (installed on the module)."""

    def __init__(self, tu, utils, max_nested=40):
        self.tu = tu
        self.utils = utils
        self.stack = []
        self.group = None           # list collecting the finished frames of the current table
        self.nested_left = 0
        self.max_nested = max_nested
        self.stats = dict(find_calls=0, irr_calls=0, nested_dropped=0)
        self.orig = {}
        self.sig = inspect.signature(tu._find_types)

    # ------------------------------------------------------------------ install / remove
    def install(self):
        tu = self.tu
        for name in ("_find_types", "find_irrelevant_type", "_construct_related_types",
                     "instantiate_type_constructor", "choose_type", "get_irrelevant_parameterized_type"):
            self.orig[name] = getattr(tu, name)
        self.orig_choice = self.utils.random.choice
        tu._find_types = self._w_find_types
        tu.find_irrelevant_type = self._w_irr
        tu._construct_related_types = self._oracle("_construct_related_types", "find", self._st_related)
        tu.instantiate_type_constructor = self._oracle("instantiate_type_constructor", "find", self._st_inst)
        tu.choose_type = self._oracle("choose_type", "irr", self._st_choose)
        tu.get_irrelevant_parameterized_type = self._oracle("get_irrelevant_parameterized_type", "irr",
                                                            self._st_param)
        self.utils.random.choice = self._w_choice

    def uninstall(self):
        for name, f in self.orig.items():
            setattr(self.tu, name, f)
        try:
            del self.utils.random.choice       # the instance attribute shadowing the method
        except AttributeError:
            pass

    def begin_group(self):
        self.group = []
        self.nested_left = self.max_nested
        return self.group

    # ------------------------------------------------------------------ frames
    def _w_find_types(self, *a, **kw):
        ba = self.sig.bind(*a, **kw)
        ba.apply_defaults()
        parent = self.stack[-1] if self.stack else None
        direct = parent is not None and parent["in_oracle"] == 0
        fr = dict(kind="find", in_oracle=0, args=dict(ba.arguments), related=_UNSET, inst=[],
                  oracle_raised=False, top=parent is None, result=_UNSET, raised=None)
        self.stack.append(fr)
        try:
            res = self.orig["_find_types"](*a, **kw)
            fr["result"] = list(res)
            return res
        except Exception as e:          # noqa: BLE001
            fr["raised"] = type(e).__name__ + ": " + str(e)[:100]
            raise
        finally:
            self.stack.pop()
            if direct and parent["kind"] == "irr":
                parent["finds"].append(fr)
            self._done(fr)

    def _w_irr(self, etype, types, factory):
        parent = self.stack[-1] if self.stack else None
        fr = dict(kind="irr", in_oracle=0, etype=etype, types=list(types), finds=[], choose=_UNSET, pick=_UNSET,
                  param=_UNSET, oracle_raised=False, top=parent is None, result=_UNSET, raised=None)
        self.stack.append(fr)
        try:
            res = self.orig["find_irrelevant_type"](etype, types, factory)
            fr["result"] = res
            return res
        except Exception as e:          # noqa: BLE001
            fr["raised"] = type(e).__name__ + ": " + str(e)[:100]
            raise
        finally:
            self.stack.pop()
            self._done(fr)

    def _done(self, fr):
        if self.group is None:
            return
        self.stats["find_calls" if fr["kind"] == "find" else "irr_calls"] += 1
        if not fr["top"]:
            if self.nested_left <= 0:
                self.stats["nested_dropped"] += 1
                return
            self.nested_left -= 1
        self.group.append(fr)

    # ------------------------------------------------------------------ oracles
    def _oracle(self, name, kind, store):
        orig = self.orig[name]

        def wrapper(*a, **kw):
            fr = self.stack[-1] if self.stack else None
            rec = fr is not None and fr["in_oracle"] == 0 and fr["kind"] == kind
            if fr is not None:
                fr["in_oracle"] += 1
            try:
                r = orig(*a, **kw)
                if rec:
                    store(fr, a, kw, r)
                return r
            except Exception:           # noqa: BLE001
                if rec:
                    fr["oracle_raised"] = True
                raise
            finally:
                if fr is not None:
                    fr["in_oracle"] -= 1
        wrapper.__name__ = name
        return wrapper

    @staticmethod
    def _st_related(fr, a, kw, r):
        fr["related"] = r

    @staticmethod
    def _st_inst(fr, a, kw, r):
        fr["inst"].append((a[0] if a else kw["type_constructor"], r[0]))

    @staticmethod
    def _st_choose(fr, a, kw, r):
        fr["choose"] = r

    @staticmethod
    def _st_param(fr, a, kw, r):
        fr["param"] = r

    def _w_choice(self, choices):
        fr = self.stack[-1] if self.stack else None
        r = self.orig_choice(choices)
        if fr is not None and fr["in_oracle"] == 0 and fr["kind"] == "irr":
            fr["pick"] = next(i for i, x in enumerate(choices) if x is r)
            fr["avail_len"] = len(choices)
        return r


# ---------------------------------------------------------------------------------- frames -> Coq

def _ft_oracle(L, fr):
    rel = None if fr["related"] is _UNSET else T.reify(L, fr["related"])
    inst = [(T._cid(L, c), T.reify(L, r)) for c, r in fr["inst"]]
    return rel, inst


def _c_ft_oracle(o):
    rel, inst = o
    return "{| fo_related := %s; fo_inst := %s |}" % (
        C.copt(rel, T.cterm), C.clist(inst, lambda p: "(%d, %s)" % (p[0], T.cterm(p[1]))))


EMPTY_FT = (None, [])


def frame_case(L, fr, pool_terms):
    """A finished frame as a JSON-able case, or None when it cannot be expressed (an oracle raised:
    the call has no value that could be attributed to the modelled part)."""
    if fr["oracle_raised"]:
        return None
    if fr["kind"] == "find":
        a = fr["args"]
        types = [T.reify(L, (t.get_type() if hasattr(t, "get_type") else t)) for t in a["types"]]
        return dict(kind="find", etype=T.reify(L, a["etype"]), types=None if types == pool_terms else types,
                    get_subtypes=bool(a["get_subtypes"]), include_self=bool(a["include_self"]),
                    bound=None if a["bound"] is None else T.reify(L, a["bound"]),
                    concrete=bool(a["concrete_only"]), oracle=_ft_oracle(L, fr),
                    expected=None if fr["result"] is _UNSET else [T.reify(L, r) for r in fr["result"]],
                    raised=fr["raised"], top=fr["top"])
    types = [T.reify(L, (t.get_type() if hasattr(t, "get_type") else t)) for t in fr["types"]]
    finds = fr["finds"]
    if any(f["oracle_raised"] for f in finds):
        return None
    sup = _ft_oracle(L, finds[0]) if len(finds) > 0 else EMPTY_FT
    sub = _ft_oracle(L, finds[1]) if len(finds) > 1 else EMPTY_FT
    return dict(kind="irr", etype=T.reify(L, fr["etype"]), types=None if types == pool_terms else types,
                choose=None if fr["choose"] is _UNSET else T.reify(L, fr["choose"]),
                sup=sup, sub=sub, pick=0 if fr["pick"] is _UNSET else fr["pick"],
                param=None if fr["param"] is _UNSET else (None if fr["param"] is None else T.reify(L, fr["param"])),
                param_set=fr["param"] is not _UNSET,
                expected=(None if fr["result"] is None else T.reify(L, fr["result"])),
                returned=fr["result"] is not _UNSET, raised=fr["raised"], top=fr["top"])


def coq_case(c):
    tys = "None" if c["types"] is None else "(Some %s)" % C.clist(c["types"], T.cterm)
    if c["kind"] == "find":
        ex = "None" if c["expected"] is None else "(Some %s)" % C.clist(c["expected"], T.cterm)
        return "SFind %s %s %s %s %s %s %s %s" % (
            T.cterm(c["etype"]), tys, C.cbool(c["get_subtypes"]), C.cbool(c["include_self"]),
            C.copt(c["bound"], T.cterm), C.cbool(c["concrete"]), _c_ft_oracle(c["oracle"]), ex)
    if not c["returned"]:
        ex = "None"
    else:
        ex = "(Some %s)" % C.copt(c["expected"], T.cterm)
    par = "None" if not c["param_set"] else "(Some %s)" % C.copt(c["param"], T.cterm)
    o = "{| io_choose := %s; io_sup := %s; io_sub := %s; io_pick := %d; io_param := %s |}" % (
        C.copt(c["choose"], T.cterm), _c_ft_oracle(c["sup"]), _c_ft_oracle(c["sub"]), c["pick"], par)
    return "SIrr %s %s %s %s" % (T.cterm(c["etype"]), tys, o, ex)


HDR = (C.CASE_HEADER + "From Coq Require Import List Arith Bool.\nImport ListNotations.\n"
       "From Heph Require Import Types.Syntax Types.Subst Types.Subtype Types.Corr Types.Search Types.SearchCorr "
       "Generated.Builtins.\n")
FUEL = 40


def evaluate(rep, groups):
    """groups: list of (lang, tab, any_bid, pool_terms, [case dicts]).  Evaluates the model on every case and
    reports each disagreement; returns the coverage counters."""
    import re
    files = []
    index = {}
    for k, (lang, tab, anyb, pool_terms, cases) in enumerate(groups):
        if not cases:
            continue
        w = "{| w_ct := %s ++ bclasses_%s; w_bt := bt_%s; w_array := array_%s |}" % (T.coq_ctable(tab), lang, lang, lang)
        body = ["Definition w : world := %s." % w,
                "Definition pool : list ty := %s." % C.clist(pool_terms, T.cterm),
                "Definition cs : list scase := [\n%s\n]." % ";\n".join(coq_case(c) for c in cases),
                "Eval vm_compute in (scase_mismatches w %d %d pool 0 cs)." % (FUEL, anyb)]
        name = "c09s_%d" % k
        index[name] = k
        files.append((name, HDR + "\n".join(body) + "\n"))
    C.clean_cases("c09s_")
    res = C.run_case_files(files, timeout=1200)
    cov = dict(search_cases=0, search_find_subtypes=0, search_find_supertypes=0, search_irrelevant=0,
               search_top_level=0, search_nested=0, search_with_related_oracle=0, search_with_inst_oracle=0,
               search_with_bound=0, search_irr_constructor_pick=0, search_irr_none=0, search_raised=0,
               search_mismatches=0, search_results_compared=0)
    hist = {}
    for name, _ in files:
        k = index[name]
        lang, tab, anyb, pool_terms, cases = groups[k]
        rc, out = res[name]
        if rc != 0:
            rep.violation("case-file", "case file %s did not evaluate: %s" % (name, out[-600:]),
                          dict(broken=name, log=out[-3000:]), no_input=True)
            continue
        for c in cases:
            cov["search_cases"] += 1
            cov["search_top_level" if c["top"] else "search_nested"] += 1
            if c["kind"] == "find":
                cov["search_find_subtypes" if c["get_subtypes"] else "search_find_supertypes"] += 1
                cov["search_with_related_oracle"] += c["oracle"][0] is not None
                cov["search_with_inst_oracle"] += bool(c["oracle"][1])
                cov["search_with_bound"] += c["bound"] is not None
                cov["search_results_compared"] += len(c["expected"] or [])
                cov["search_raised"] += c["expected"] is None
            else:
                cov["search_irrelevant"] += 1
                cov["search_irr_constructor_pick"] += c["param_set"]
                cov["search_irr_none"] += c["returned"] and c["expected"] is None
                cov["search_results_compared"] += 1
                cov["search_raised"] += not c["returned"]
        body = C.parse_eval_outputs(out)[-1].split(" : ")[0]
        for ci, code in re.findall(r"\((\d+),\s*(\d+)\)", body):
            ci, code = int(ci), int(code)
            c = cases[ci]
            kind = CODE_KIND.get(code, str(code))
            hist[kind] = hist.get(kind, 0) + 1
            cov["search_mismatches"] += 1
            call = ("_find_types(%s, get_subtypes=%s, include_self=%s, bound=%s, concrete_only=%s)" % (
                T.cterm(c["etype"]), c["get_subtypes"], c["include_self"],
                "None" if c["bound"] is None else T.cterm(c["bound"]), c["concrete"])) if c["kind"] == "find" else (
                "find_irrelevant_type(%s)" % T.cterm(c["etype"]))
            got = "raised %s" % c["raised"] if c["raised"] else (
                C.clist(c["expected"], T.cterm) if c["kind"] == "find" else C.copt(c["expected"], T.cterm))
            rep.violation(kind, "%s: the model of %s with the recorded oracle answers does not give what the code returned (%s) [%s]"
                          % (lang, call, got, kind),
                          dict(lang=lang, table={kk: list(v) for kk, v in tab.items()}, pool=pool_terms, search_case=c,
                               shape=kind, coq_case=coq_case(c)))
    C.clean_cases("c09s_")
    cov["search_mismatch_histogram"] = hist
    return cov
