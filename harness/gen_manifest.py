"""Writes MANIFEST.json from the table below (kept in one place so it stays valid)."""
import json, os
V = os.path.dirname(os.path.dirname(os.path.abspath(__file__)))

CHECKS = {
 "C19": dict(
    category="proof",
    text="Every graph function of src/graph_utils.py is transliterated to Gallina (Graph/Model.v); Properties_C19.v states, for all graphs and vertices with no size bound, that each function returns what its textbook definition prescribes (Graph/Spec.v) and Coq's kernel checks the proofs. The model is tied to the code on every run by a correspondence check: all digraphs on <= 3 (thorough: <= 4) vertices exhaustively plus seeded random graphs are evaluated by the real Python code and by the model (vm_compute) and must agree on all 12 functions; the implementation's outputs are additionally judged by an independent closure-based specification.",
    design_ref="DESIGN.md section 5 C19",
    note="Trusted: Coq kernel + VM; hand-written model tied only by differential correspondence; vertices modelled as naturals; Python recursion limit not modelled.",
    technique="Coq proof over hand-written Gallina model + exhaustive/random correspondence (vm_compute) with the Python code"),
 "C16": dict(
    category="proof",
    text="src/ir/context.py (Context and the module-level get_decl) is transliterated to Gallina (Context/Model.v: ordered dicts with Python's order semantics, the reverse index, the LIFO glob traversal). Properties_C16.v proves, for every finite history of add/remove/remove_namespace operations, that current-namespace queries return exactly the live bindings in insertion order, enclosing-scope queries return the innermost binding along the namespace path, global queries return the bindings of the namespaces reachable through recorded functions/classes, lookup returns the innermost truthy declaration, removal is local and falls through, and the reverse lookup is stable -- the live bindings being defined over the HISTORY (Context/Spec.v), not the state. Tie: correspondence on random operation histories with ~10 queries after every step, real Context vs model (vm_compute), plus a history-based reference judge of the implementation's answers.",
    design_ref="DESIGN.md section 5 C16",
    note="Trusted: Coq kernel + VM; hand-written model tied by differential correspondence on operation histories; names/values abstracted to naturals (identity up to Python ==).",
    technique="Coq refinement proof (state machine -> history-based scoped-map spec) + correspondence on operation histories"),
 "C15": dict(
    category="proof",
    text="check_oracle, check_oracle_mul, update_stats/save_stats and the end-of-session cleanup of hephaestus.py are transliterated to Gallina over an abstract file system (Driver/Model.v). Properties_C15.v proves for every well-formed batch and verdict: a program is reported iff the tool failed on it, a well-typed file was rejected, an ill-typed file was accepted or the compiler crashed (report_iff), the message clauses (report_messages_ordered; the unconditional form is refuted for an ordering of the programs dict that gen_program never builds), a test case is saved iff the fault is compiler-related (saved_iff), tmp/batch directories are cleaned (batch_cleanup, no_leftovers), and for every session passed+failed equals the programs processed and the faults map lists exactly the reported programs (counters, failed_counter), independent of callback order (update_stats_commutes). Tie: the real hephaestus module runs whole sessions (hephaestus.run(), and check_oracle_mul for worker mode) with scripted compiler output and program generation; after every batch the returned map, STATS, faults.json/stats.json and the directory tree are compared with the model and judged against the statement.",
    design_ref="DESIGN.md section 5 C15",
    note="Trusted: Coq kernel + VM; hand-written model tied by differential correspondence on batch histories; compiler and generator are scripted stand-ins; real process pools/signals are outside the model (worker mode is driven through check_oracle_mul + update_stats).",
    technique="Coq proof over state-machine model of the driver + correspondence on scripted batch histories"),
 "C14": dict(
    category="proof",
    text="The regular expressions of the four compiler classes are regenerated from /repo on every run (CPython's own re._parser -> Coq regex AST, fail-closed) into Generated/Regexes.v; Diag/Regex.v is a backtracking matcher with Python's priority semantics and Diag/Analyze.v transliterates analyze_compiler_output. Properties_C14.v proves, for outputs of any length: the crash classification (analyze_crash_iff), that the failed map is exactly the group-by of the findall matches (no diagnostic dropped or moved: analyze_diag_is_findall, failed_add_groups), and for kotlinc and javac output grammars that exactly the files with an error line are reported with their messages while warnings, notes, quoted source and summaries add none (attribution_kotlin, attribution_java(_exact), warnings_add_no_file_*). These theorems are about the regenerated regexes, so an edited pattern re-checks or breaks them. Ties run every time: engine vs CPython re on random patterns; analyze_compiler_output vs the model on synthesised batch outputs of all four compilers with ground truth (also judged against the statement). Groovy and Scala (multi-line patterns) are covered by the correspondence and the generic theorems only.",
    design_ref="DESIGN.md section 5 C14",
    note="Trusted: Coq kernel + VM; re2coq translator; the engine is a model of CPython's sre validated by differential testing on every run; ASCII inputs; patterns that can match the empty string are rejected by the translator.",
    technique="Coq proofs over regexes regenerated from source + engine/analyze correspondence with CPython re"),
 "C07": dict(
    category="proof",
    text="Substitution, instantiation, supertypes and closure of src/ir/types.py are modelled in Types/Subst.v over nominal terms + class table. Properties_C07.v proves for all types/maps/tables: substituting with the empty map is the identity, the `cond` of perform_type_substitution is irrelevant for variable-free replacements, TypeConstructor.new's supertypes are the declared supertypes with the parameters replaced (new_supertypes), no substituted parameter survives anywhere -- nested arguments, wildcard bounds, bounds of other parameters (subst_everywhere_partial; the unrestricted form is refuted by a name clash witness), ground maps ground the type (subst_ground), get_supertypes is exactly the reflexive-transitive closure of the direct supertypes (sound; complete for tables without primitive-flagged supertypes, refuted otherwise), to_variance_free is idempotent. 'Mutates nothing' is a statement about the Python heap which the pure model satisfies trivially; it is carried by the correspondence: histories of new/substitute_type/substitute_type_args/to_variance_free/is_subtype/get_supertypes calls on shared objects with a deep structural snapshot of every existing object before and after each call.",
    design_ref="DESIGN.md section 5 C07",
    note="Trusted: Coq kernel + VM; hand-written model tied by correspondence on call histories; mutation-freedom observed by snapshots (exploration strength), not proved.",
    technique="Coq proofs of substitution laws + correspondence and heap snapshots over call histories"),
 "C06": dict(
    category="proof",
    text="is_subtype / is_assignable / get_supertypes of src/ir/types.py and the per-language built-in tables (regenerated from the source on every run into Generated/Builtins.v) are modelled over nominal terms + class table (Types/Subtype.v). The reference is the syntax-directed declarative relation SubA (Types/Decl.v: hierarchy, declaration-site variance, use-site projections read existentially and opened by capture conversion, bounds) with an executable tri-state checker sub_ref proved sound for both answers (sub_ref_yes_sound, sub_ref_no_sound). Proved for all class tables and types: on the projection-free, variable-free fragment a True answer of the model is derivable (is_subtype_sound_pf) and a False answer is exact (is_subtype_complete_pf_partial, boxed types), hence definite answers coincide with the relation (is_subtype_exact_pf) and are reflexive and transitive (is_subtype_refl_pf, is_subtype_trans_pf, suba_trans_pf_partial via declaration-site variance validity); the bottom types are below everything. Unrestricted soundness is REFUTED by three machine-checked witnesses (nested projection, variance-conflicting projection, type variable left in the supertypes by perform_type_substitution's cond) -- recorded as known findings C06-F4/F9. Tie: correspondence of is_subtype/is_assignable with the model on random class tables with relation-directed and closure-directed pairs, and every implementation answer on well-formed types is judged by sub_ref in Coq (unsound / incomplete-on-ground verdicts, classified by shape so that only the two known shapes are suppressed).",
    design_ref="DESIGN.md section 5 C06",
    note="Trusted: Coq kernel + VM; hand-written model tied by correspondence; Generated/Builtins.v produced by introspection; soundness for types WITH use-site projections is not proved (it is false in general, see the refutations) -- there the check relies on sub_ref judging each explored pair.",
    technique="Coq proofs (model vs declarative relation, reference checker soundness) + correspondence + proven-sound reference judging every explored pair"),
 "C17": dict(
    category="proof",
    text="Proved for every random draw (IR/Properties_C17.v): with use-site variance disabled _get_type_arg_variance returns Invariant, with contravariance disabled never Contravariant, never a projection on a parameter another bound mentions, and a projection only where the variance choices, the declared variance and both switches allow it; a zero probability never draws a bound / function type parameters; without with_variance (Java/Groovy classes, all function type parameters) the declared variance is Invariant. Generated/Config.v -- the effect of the four CLI flags on cfg, obtained by running src/args.py on all 16 combinations on every run -- is proved to set exactly these switches. The absence predicates on programs (NoUseSite, NoContraUseSite, NoBounds, NoParamFuncs, NoDeclVariance, FuncParamsInvariant) are defined over TypeOccurs (every type occurrence incl. nested arguments and bounds) and their checkers are proved equivalent (chk_honoured_iff). Per run, for each of the 16 combinations x 4 languages x seeds the real generator's program is serialised and the kernel proves Honoured switches program. PARTIAL: 'for all seeds' is sampled -- the whole-generator claim is validated per explored program (translation-validation strength), the switch logic is proved.",
    design_ref="DESIGN.md section 5 C17",
    note="Trusted: Coq kernel + VM; ir2coq serialiser (fail-closed); decision-fragment model tied by direct driving of _get_type_arg_variance under scripted choices; gen_type_params' draws are modelled, not driven.",
    technique="Coq proofs of the switch logic for all draws + kernel-checked per-program certificates through a proved checker"),
 "C09": dict(
    category="translation_validation",
    text="The searches (find_subtypes, find_irrelevant_type and their helpers: ~250 lines of randomised construction over instantiate_type_constructor) are NOT modelled. What Coq carries is the declarative relation SubA with the executable checker sub_ref proved sound for both answers (C06), and theorems saying what an accepting verdict of the validator establishes (Properties_C09.v: accepted_result_is_a_declarative_subtype, accepted_concrete_result_is_usable, accepted_self_inclusion, accepted_irrelevant_type_is_unrelated). Every result returned on this run is validated: for each type returned by find_subtypes the kernel checks a SubA derivation (Theorem r_i_j : SubA w [] r t, by sub_ref_yes_sound + vm_compute), usability and self-inclusion are decided by the proved checker, and for each irrelevant type the kernel checks the refutation of both directions. PARTIAL: all random choices / all class tables are sampled (synthetic tables with well-bounded query types); a rejected result is a violation with the query as replay.",
    design_ref="DESIGN.md section 5 C09",
    note="Trusted: Coq kernel + VM; reification of Python type objects (tymodel.py); the bottom type and ill-bounded / primitive-argument query types are outside the explored domain; exceptions of the searches are counted, not judged (C18's subject).",
    technique="per-result kernel-checked derivations through a proved-sound reference checker (translation validation); searches not modelled"),
 "C08": dict(
    category="translation_validation",
    text="Proved for every random draw (Properties_C08.v, shared with C17): _get_type_arg_variance yields a projection only where variance_choices, the declared variance and both switches allow it, and never when another parameter's bound mentions the parameter. The assignment computation itself (_compute_type_variable_assignments, update_type_var_bound_rec, instantiate_*; ~200 lines of randomised search) is NOT modelled; every call explored on this run is validated: exactly one argument per parameter, no primitive or bare constructor, consistent pre-assignments kept (at most wrapped), projections only where allowed (structural checks in the harness), and for every bounded parameter the kernel proves SubA (upper bound of the argument) (declared bound with the other arguments substituted) through the proved-sound reference checker. PARTIAL: declarations, pools, pre-assignments, variance-choice maps and random choices are sampled.",
    design_ref="DESIGN.md section 5 C08",
    note="Trusted: Coq kernel + VM; reification; the substituted bound is computed with the implementation's substitute_type (itself covered by C07); structural checks are harness code.",
    technique="Coq proof of the variance-choice logic + per-call kernel-checked bound derivations (translation validation)"),
 "C10": dict(
    category="proof",
    text="unify_types / _update_type_var_map of src/ir/type_utils.py with get_bound_rec / to_type_variable_free are modelled in Types/Unify.v. Properties_C10.v proves for all tables, types, fuels and both matching modes: the answer never gives one variable two types (unify_keys_distinct, unify_conflict_detected, merge_conflict_detected: a second binding is accepted only if it is ==-equal to the first), only type variables are assigned and never None (unify_assigns_types), in supertype-matching mode the answer unifies the pattern with a type on the target's last-supertype chain (unify_supertype_mode), each assigned type satisfies its variable's variable-free bound up to Python equality (unify_bounds_upto; exact form under 'equality determines the bound', refuted otherwise by a primitive-flag witness), and the answer IS a unifier -- the pattern instantiated by it is the target up to open variables, an open bounded variable's component being an instance of its bound (unify_matches_partial, for patterns whose bounded variables have variable-free bounds and correct arities; the unrestricted statement is refuted by a repeated variable whose bound mentions another variable, weak form unify_matches_weak). Tie: correspondence on (target, pattern) pairs derived from each other (instances, one-edit perturbations, subclass instances for supertype mode, unrelated) over random class tables; every non-empty implementation answer is also judged by substituting it back with the real substitute_type.",
    design_ref="DESIGN.md section 5 C10",
    note="Trusted: Coq kernel + VM; hand-written model tied by correspondence (3500 pairs per quick run); class-name aliasing (Kotlin Array / SpecializedArray) passed as a table.",
    technique="Coq proofs over the unification model + correspondence + substitute-back judge"),
 "C01": dict(
    category="translation_validation",
    text="The generator (2900 lines of randomised construction) is NOT modelled. What Coq carries is the program IR (IR/Syntax.v: one node per AST object with every attribute, types as nominal terms), the class table extracted from the program, and an executable reference type checker (IR/Check.v) built on the declarative relation SubA and its proved-sound checker (C06): it resolves every name, synthesises expression types (members through the class chain with the class parameters substituted, smart casts, inherited default values, boxing) and checks every typed position -- initializers, call / constructor / super-constructor arguments (positional, named, default, vararg), function and lambda results, conditional branches against the type the CONTEXT expects (the recorded type of a conditional is only an approximation), assignments, bounds of explicit type arguments, inherited abstract members, final superclasses. It is lenient by construction: a position it cannot type is counted (coverage.unchecked_positions), never rejected. Properties_C01.v proves what acceptance of a position means (SubA derivable, or the modelled is_assignable accepts, or out of fuel). Every run: programs from the real generator (4 languages x switch corners) are serialised node by node (fail-closed) and the kernel proves  only_codes typing_codes (check_program ...) = []  for each. PARTIAL: 'for all seeds' is sampled; a rejected program is a violation with the pickled program and the located error as replay.",
    design_ref="DESIGN.md section 5 C01",
    note="Trusted: Coq kernel + VM; ir2coq serialiser; the reference checker itself is a definition (validated on the unchanged tree: 0 rejections in several hundred programs of all four languages, and against seeded generator mutations), not proved against an independent typing relation.",
    technique="per-program kernel evaluation of an executable reference checker built on the proved subtype checker (translation validation)"),
 "C05": dict(
    category="translation_validation",
    text="Same machinery as C01 (IR/Check.v evaluated in the kernel on serialised programs of the real generator); C05 judges the scoping/mutability codes: every Variable, FunctionCall (incl. calls through function-typed variables), FieldAccess, New and Assignment resolves to a declaration visible at that point (earlier in the same or an enclosing block, parameter, field of the enclosing class or of a superclass, member of the receiver's class chain, top-level), argument counts admit defaults/varargs/named arguments, only non-final variables and fields are assigned, only regular classes are instantiated, identifiers are not declared twice in one block or parameter list and are not reserved words (keyword lists read from src/resources on every run), Java lambdas and nested functions capture only final locals. Per program the kernel proves  only_codes scoping_codes (check_program ...) = [].  PARTIAL: sampled over seeds; resolution through receivers whose type the checker cannot determine is counted as unchecked.",
    design_ref="DESIGN.md section 5 C05",
    note="Trusted: as C01. Type variables in scope (code 24) are not yet checked.",
    technique="per-program kernel evaluation of an executable reference resolver/checker (translation validation)"),
 "C03": dict(
    category="translation_validation",
    text="Structural half, decided exactly: the relation ErasedFrom (only a declared variable type, a declared return type or the explicit-type-argument flag of a constructor / generic call may change; every other node, name, number, modifier and recorded type is identical) has a decision procedure proved equivalent to it (erased_from_iff), with the consequences erasure_only_removes_types, erasure_keeps_shape, erasure_is_local (Properties_C03.v). Semantic half: the reference type checker of C01 run in INFERENCE mode on the erased program -- a local variable whose declared type was removed gets the type synthesised for its initializer, i.e. what a compiler infers -- must still accept every typed position. Per run the real TypeErasure.transform() is applied to generated programs of the four languages and for every before/after pair the kernel proves ErasedFrom before after and only_codes typing_codes (check_program (infer:=true) ... after) = []. PARTIAL: the type-dependency analysis that chooses what to erase is not modelled (validated per program); erased return types and erased type arguments are not re-inferred by the checker (recorded types are used; calls whose type arguments are inferred are unchecked positions), so the diamond-inference defect seen with javac (DESIGN section 9 F8) is outside what this check can exhibit.",
    design_ref="DESIGN.md section 5 C03",
    note="Trusted: Coq kernel + VM; ir2coq serialiser; reference checker (lenient) as in C01.",
    technique="exact Coq decision of the 'differs only by' relation + per-program kernel evaluation of the reference checker in inference mode (translation validation)"),
 "C04": dict(
    category="translation_validation",
    text="The difference between the program before and after TypeOverwriting.transform() is computed in Coq by type_changes, proved to be defined iff nothing but types differs, empty iff the programs are identical and to list exactly the differing type slots (Properties_C04.v: type_changes_nil_iff, type_changes_same_skeleton, type_changes_complete); IR/Overwrite.v classifies it (exactly one declared variable/return type incl. its recorded copy, or exactly one explicit type argument of a constructor / generic call). For the single site the replaced and the new type are judged by the proved-sound reference subtype checker in the program's own class table (both directions must be refuted) and by hand-written language-level convertibility tables (primitive widening, boxing, reference widening to Number, the top type); the reference type checker must accept the input and report at least one typing error on the mutated program; the reported message must name both types and the node; when nothing is reported as injected the program must be unchanged. PARTIAL: candidate nodes / replacement types are the ones the mutation picks on the explored programs; the located-error requirement is 'the reference checker rejects', not a proof that every correct checker must.",
    design_ref="DESIGN.md section 5 C04",
    note="Trusted: Coq kernel + VM; ir2coq; reference checker (lenient); language convertibility tables in harness/c04.py. Known finding C04-F5 (language-level convertible replacements) is reported as KNOWN-FINDING.",
    technique="proved-exact program diff + proved-sound subtype refutation + reference checker on before/after snapshots (translation validation)"),
}

NOT_APPLICABLE = {
 "C02": "The judge is javac's implementation of the JLS and the subject a 1192-line pretty-printer; neither can be modelled in Coq here and a verdict obtained by running javac is testing, not proof (DESIGN.md section 6).",
 "C13": "The property is about CPython's pickle applied to ~40 IR classes; a Coq model would be a model of pickle and the only tie to the code would be the round-trip test itself (DESIGN.md section 6).",
}

PENDING = ["C11","C12","C18"]

def main():
    checks = []
    for pid in sorted(CHECKS):
        c = CHECKS[pid]
        checks.append(dict(
            property_id=pid,
            quick_cmd="./check %s --tier quick" % pid,
            thorough_cmd="./check %s --tier thorough" % pid,
            evidence_file="/verif/evidence/%s.json" % pid,
            replay_cmd_template="./check %s --replay {path}" % pid,
            engine="coq-model-correspondence",
            level_claimed=dict(category=c["category"], text=c["text"], design_ref=c["design_ref"]),
            level_note=c["note"],
            technique=c["technique"]))
    na = [dict(property_id=k, reason=v) for k, v in sorted(NOT_APPLICABLE.items())]
    for p in PENDING:
        if p not in CHECKS and p not in NOT_APPLICABLE:
            na.append(dict(property_id=p, reason="not claimed yet: model/theorems under construction (see DESIGN.md section 10 build order); no check is registered until it passes on the unchanged tree"))
    na.sort(key=lambda d: d["property_id"])
    m = dict(
        version=1,
        setup_cmd="cd /verif/coq && coq_makefile -f _CoqProject -o Makefile && timeout 3600 make -j16",
        hooks=dict(guard="HEPHAESTUS_VERIF", enable="export HEPHAESTUS_VERIF=1 (set by ./check); src/ir/node.py gives Node objects a creation-order hash when the variable is set (reproducible generation); everything else is wrapped from outside",
                   baseline_off_cmd="cd /repo && env -u HEPHAESTUS_VERIF /venv/bin/python -m pytest -ra -q -p no:cacheprovider --timeout=900 --continue-on-collection-errors",
                   source_commits=["c63c77d"], add_only=True),
        engines=[dict(name="coq-model-correspondence", path="/verif/check",
                      serves_properties=sorted(CHECKS),
                      kind_free_text="Coq 8.16.1 development under /verif/coq (models, specs, proofs); harness/*.py drives /repo's Python code and the model (vm_compute in coqc) on the same inputs")],
        checks=checks,
        not_applicable=na,
        notes="Every check: (1) rebuilds the .vo closure of Properties_Cxx.v and re-checks that file, capturing Print Assumptions; (2) greps the development for Admitted/Axiom/...; (3) runs the correspondence between the Gallina model and /repo's working tree; (4) judges implementation outputs with the executable specification; (5) writes evidence/<id>.json.")
    json.dump(m, open(os.path.join(V, "MANIFEST.json"), "w"), indent=1)

if __name__ == "__main__":
    main()
