"""C15 -- the driver reports a fault exactly on an oracle mismatch and counts correctly.

Proof part: coq/Driver/Properties_C15.v over Driver/Model.v.
Tie: the real hephaestus module (imported from /repo's working tree under a controlled
argv) is run with the compiler invocation and program generation replaced by scripted
stand-ins; after every batch the returned fault map, STATS, faults.json/stats.json and the
directory tree are compared with the model.  Sequential sessions go through the real
hephaestus.run() loop (_run, get_batches, stop_condition, process_res, update_stats, final
cleanup); worker-mode batches go through check_oracle_mul + update_stats.
"""
import contextlib
import glob as globmod
import io
import json
import os
import random
import re
import shutil
import sys
import tempfile
from collections import OrderedDict

import common as C

SHOULD = "SHOULD NOT BE COMPILED: "


# ------------------------------------------------------------------ scripted world

class World:
    def __init__(self, workdir):
        self.workdir = workdir
        argv = ["hephaestus.py", "--iterations", "3", "--batch", "2", "--language", "kotlin",
                "--bugs", workdir, "--name", "base", "--log-file", os.path.join(workdir, "logs")]
        C.setup_repo_import(0, argv)
        import hephaestus as H
        self.H = H
        self.orig = dict(run_command=H.run_command, gen_program=H.gen_program,
                         check_oracle=H.check_oracle, update_stats=H.update_stats)
        self.nsess = 0

    def new_session(self):
        H = self.H
        self.nsess += 1
        td = os.path.join(self.workdir, "sess%d" % self.nsess)
        H.cli_args.test_directory = td
        H.cli_args.debug = False
        H.cli_args.rerun = False
        H.cli_args.dry_run = False
        H.cli_args.error_filter_patterns = ''
        H.STATS["totals"]["passed"] = 0
        H.STATS["totals"]["failed"] = 0
        H.STATS["faults"] = {}
        H.STATS["time"] = 0
        H.STATS["compilation_time"] = 0
        H.STOP_COND = False
        return td


def scan_fs(td, batchdirs):
    """directory tree -> model dirs"""
    out = []
    for k, d in batchdirs.items():
        if os.path.isdir(d):
            out.append(("B", k))
    tmp = os.path.join(td, "tmp")
    if os.path.isdir(tmp):
        for n in sorted(os.listdir(tmp)):
            if n.isdigit():
                out.append(("T", int(n)))
    if os.path.isdir(td):
        for n in sorted(os.listdir(td)):
            if n.isdigit() and os.path.isdir(os.path.join(td, n)):
                out.append(("S", int(n)))
    return out


# ------------------------------------------------------------------ history generation

def gen_history(rng, malformed):
    """Returns dict(mode, batch_size, programs=[...per pid...], verdicts=[per batch])."""
    mode = "seq" if rng.random() < 0.6 else "workers"
    bsize = rng.randint(1, 4)
    nb = rng.randint(1, 5)
    total = bsize * (nb - 1) + rng.randint(1, bsize)
    progs = {}
    for pid in range(1, total + 1):
        r = rng.random()
        if r < 0.2:
            progs[pid] = dict(kind="genfail", err=pid, tmp=rng.random() < 0.4)
        elif r < 0.45:
            progs[pid] = dict(kind="correct_only", tmp=True)
        else:
            progs[pid] = dict(kind="both", inj=pid, tmp=True)
        if malformed and rng.random() < 0.15:
            progs[pid]["tmp"] = False               # tmp/<pid> missing
    verdicts = []
    pid = 1
    while pid <= total:
        pids = list(range(pid, min(pid + bsize, total + 1)))
        if rng.random() < 0.12:
            verdicts.append(dict(crash=len(verdicts) + 1))
        else:
            failed = []
            for q in pids:
                pr = progs[q]
                if pr["kind"] == "genfail":
                    continue
                files = [2 * q] + ([2 * q + 1] if pr["kind"] == "both" else [])
                for f in files:
                    # bias towards the oracle-agreeing outcome, with all four combinations frequent
                    expect_ok = (f % 2 == 0)
                    err = rng.random() < (0.3 if expect_ok else 0.65)
                    if err:
                        failed.append((f, [rng.randint(1, 9) for _ in range(rng.randint(1, 3))]))
            rng.shuffle(failed)
            verdicts.append(dict(failed=failed))
        pid += bsize
    return dict(mode=mode, bsize=bsize, total=total, progs=progs, verdicts=verdicts)


# ------------------------------------------------------------------ running a history

class Runner:
    def __init__(self, world, hist):
        self.w = world
        self.h = hist
        self.H = world.H
        self.td = world.new_session()
        self.batchdirs = {}
        self.file_of = {}        # path string -> file id
        self.batch_no = 0
        self.obs = []            # per batch observation dicts
        self.cur = None
        self.crash_text = {}
        self.json_inconsistent = []

    # scripted gen_program
    def gen_program(self, pid, dirname, packages):
        H = self.H
        pr = self.h["progs"][pid]
        tmpd = os.path.join(self.td, "tmp", str(pid))
        if pr.get("presaved"):
            os.makedirs(os.path.join(self.td, str(pid)), exist_ok=True)
        if pr["tmp"]:
            os.makedirs(tmpd, exist_ok=True)
            open(os.path.join(tmpd, "program.kt"), "w").write("// %d\n" % pid)
        if pr["kind"] == "genfail":
            return H.ProgramRes(True, {"transformations": [], "error": "gen%d" % pr["err"],
                                       "program": None, "time": 0})
        cdir = os.path.join(dirname, "pa%d" % pid)
        os.makedirs(cdir, exist_ok=True)
        cfile = os.path.join(cdir, "program.kt")
        open(cfile, "w").write("// ok\n")
        self.file_of[cfile] = 2 * pid
        stats = {"transformations": [], "error": None, "programs": {cfile: True}, "time": 0.0}
        if pr["kind"] == "both":
            idir = os.path.join(dirname, "pb%d" % pid)
            os.makedirs(idir, exist_ok=True)
            ifile = os.path.join(idir, "program.kt")
            open(ifile, "w").write("// bad\n")
            self.file_of[ifile] = 2 * pid + 1
            stats["error"] = "inj%d" % pr["inj"]
            stats["programs"][ifile] = False
        return H.ProgramRes(False, stats)

    # scripted compiler
    def run_command(self, arguments, get_stdout=True):
        if "-version" in arguments:
            return True, "kotlinc-jvm scripted"
        v = self.h["verdicts"][self.batch_no - 1]
        inv = {fid: p for p, fid in self.file_of.items()}
        if "crash" in v:
            text = "exception: org.jetbrains.kotlin.util.KotlinFrontEndException: boom %d\n\tat x.y(Z.kt)\n" % v["crash"]
            self.crash_text[text] = v["crash"]
            return False, text
        lines = ["warning: some noise"]
        for f, msgs in v["failed"]:
            for m in msgs:
                lines.append("%s:%d:%d: error: m%d" % (inv[f], 3, 7, m))
                lines.append("    val x = 1")
                lines.append("        ^")
        lines.append("")
        return (not v["failed"]), "\n".join(lines)

    def parse_msg(self, s):
        if s is None:
            return None
        if s.startswith(SHOULD):
            return ("should", self.parse_msg(s[len(SHOULD):]))
        if re.fullmatch(r"m\d+(\nm\d+)*", s):
            return ("join", [int(x[1:]) for x in s.split("\n")])
        m = re.fullmatch(r"(inj|gen)(\d+)", s)
        if m:
            return ("str", (1000 if m.group(1) == "inj" else 2000) + int(m.group(2)))
        if s in self.crash_text:
            return ("str", 3000 + self.crash_text[s])
        return ("str", 9999)

    def outmap(self, d):
        return [(pid, self.parse_msg(st.get("error"))) for pid, st in d.items()]

    def snapshot(self, ret, exn):
        H = self.H
        td = self.td
        faults = self.outmap(H.STATS["faults"])
        # the two JSON files must say what STATS says
        ff, sf = os.path.join(td, "faults.json"), os.path.join(td, "stats.json")
        if os.path.exists(ff):
            jf = json.load(open(ff))
            js = json.load(open(sf))
            if [(int(k), self.parse_msg(v.get("error"))) for k, v in jf.items()] != faults or \
               js["totals"] != H.STATS["totals"] or "faults" in js:
                self.json_inconsistent.append(self.batch_no)
        return dict(ret=None if ret is None else self.outmap(ret), exn=exn,
                    passed=H.STATS["totals"]["passed"], failed=H.STATS["totals"]["failed"],
                    faults=faults, fs=scan_fs(td, self.batchdirs))

    def run(self):
        H = self.H
        h = self.h
        H.cli_args.iterations = h["total"]
        H.cli_args.batch = h["bsize"]
        H.cli_args.seconds = None
        H.cli_args.stop_cond = "iterations"
        H.cli_args.workers = None
        runner = self
        real_check = self.w.orig["check_oracle"]
        real_update = self.w.orig["update_stats"]
        state = {}

        def check_wrapper(dirname, oracles):
            runner.batch_no += 1
            runner.batchdirs[runner.batch_no] = dirname
            state["ret"], state["exn"] = None, None
            try:
                r = real_check(dirname, oracles)
                state["ret"] = r[0]
                return r
            except Exception as e:                      # noqa: BLE001
                state["exn"] = type(e).__name__
                raise

        def update_wrapper(res, batch, batch_time):
            real_update(res, batch, batch_time)
            runner.obs.append(runner.snapshot(state.get("ret"), state.get("exn")))

        H.run_command = self.run_command
        H.gen_program = self.gen_program
        died = None
        buf = io.StringIO()
        try:
            with contextlib.redirect_stdout(buf):
                if h["mode"] == "seq":
                    H.check_oracle = check_wrapper
                    H.update_stats = update_wrapper
                    try:
                        H.run()
                    except Exception as e:              # noqa: BLE001
                        died = type(e).__name__
                        # the batch in which the tool died: STATS unchanged
                        self.obs.append(self.snapshot(None, state.get("exn") or died))
                else:
                    # worker mode: the pool callbacks, driven directly
                    H.check_oracle = check_wrapper
                    pid = 1
                    while pid <= h["total"]:
                        pids = list(range(pid, min(pid + h["bsize"], h["total"] + 1)))
                        tmpdir = tempfile.mkdtemp(prefix="vb")
                        oracles = OrderedDict()
                        for q in pids:
                            oracles[q] = self.gen_program(q, os.path.join(tmpdir, "src"), ("a", "b"))
                        res = H.check_oracle_mul(tmpdir, oracles)
                        real_update(res, len(pids), 0.0)
                        self.obs.append(self.snapshot(state.get("ret"), state.get("exn")))
                        pid += h["bsize"]
                    path = os.path.join(self.td, "tmp")
                    if os.path.exists(path):
                        shutil.rmtree(path)
        finally:
            H.run_command = self.w.orig["run_command"]
            H.gen_program = self.w.orig["gen_program"]
            H.check_oracle = self.w.orig["check_oracle"]
            H.update_stats = self.w.orig["update_stats"]
        self.final_fs = scan_fs(self.td, self.batchdirs)
        self.died = died
        for d in self.batchdirs.values():
            shutil.rmtree(d, ignore_errors=True)
        shutil.rmtree(self.td, ignore_errors=True)


# ------------------------------------------------------------------ Coq terms

def cmsg(m):
    if m is None:
        return "None"
    return "(Some %s)" % cmsg1(m)


def cmsg1(m):
    t, x = m
    if t == "str":
        return "(MStr %d)" % x
    if t == "join":
        return "(MJoin %s)" % C.clist(x)
    return "(MShould %s)" % cmsg1(x)


def cout(o):
    return C.clist(o, lambda kv: "(%d, %s)" % (kv[0], cmsg(kv[1])))


def cfs(f):
    return C.clist(f, lambda d: "%s %d" % ({"B": "DBatch", "T": "DTmp", "S": "DSaved"}[d[0]], d[1]))


EXN = {"FileExistsError": "FileExists", "FileNotFoundError": "FileNotFound", "TypeError": "TypeErr"}


def coq_hist(h, obs, final_fs):
    items = []
    pid = 1
    k = 0
    for o in obs:
        k += 1
        pids = list(range(pid, min(pid + h["bsize"], h["total"] + 1)))
        pid += h["bsize"]
        v = h["verdicts"][k - 1]
        if "crash" in v:
            cv = "VCrash %d" % (3000 + v["crash"])
        else:
            cv = "VDiag %s" % C.clist(v["failed"], lambda fm: "(%d, %s)" % (fm[0], C.clist(fm[1])))
        orc = []
        for q in pids:
            pr = h["progs"][q]
            if pr["kind"] == "genfail":
                orc.append("(%d, {| p_failed := true; p_error := Some (MStr %d); p_programs := [] |})" % (q, 2000 + pr["err"]))
            elif pr["kind"] == "correct_only":
                orc.append("(%d, {| p_failed := false; p_error := None; p_programs := [(%d, true)] |})" % (q, 2 * q))
            else:
                orc.append("(%d, {| p_failed := false; p_error := Some (MStr %d); p_programs := [(%d, true); (%d, false)] |})"
                           % (q, 1000 + pr["inj"], 2 * q, 2 * q + 1))
        b = "{| b_dir := %d; b_tmp := %s; b_verdict := %s; b_oracles := [%s] |}" % (
            k, C.clist([q for q in pids if h["progs"][q]["tmp"]]), cv, "; ".join(orc))
        ob = ("{| o_ret := %s; o_exn := %s; o_passed := %d; o_failed := %d; o_faults := %s; o_fs := %s |}" % (
            "None" if o["ret"] is None else "(Some %s)" % cout(o["ret"]),
            "None" if o["exn"] is None else "(Some %s)" % EXN.get(o["exn"], "TypeErr"),
            o["passed"], o["failed"], cout(o["faults"]), cfs(o["fs"])))
        items.append("(%s, %s)" % (b, ob))
    presaved = [("S", q) for q in sorted(h["progs"]) if h["progs"][q].get("presaved")]
    return "(%s, %s, [%s], %s)" % ("Sequential" if h["mode"] == "seq" else "Workers", cfs([]),
                                   ";\n   ".join(items), cfs(final_fs))


def coq_file(hs):
    return (C.CASE_HEADER + "From Coq Require Import List Arith Bool.\nImport ListNotations.\n"
            "From Heph Require Import Driver.Model Driver.Corr.\n"
            "Definition hs : list hist := [\n%s\n].\nEval vm_compute in (all_mismatches 0 hs).\n"
            % ";\n".join(hs))


# ------------------------------------------------------------------ the statement, on the implementation

def judge_history(h, obs, final_fs, died):
    """Returns a list of (batch index, text) where the observed behaviour contradicts the
    property statement.  Only well-formed histories are judged."""
    bad = []
    pid = 1
    reported_all = {}
    processed = 0
    for k, o in enumerate(obs):
        pids = list(range(pid, min(pid + h["bsize"], h["total"] + 1)))
        pid += h["bsize"]
        v = h["verdicts"][k]
        exp = {}
        for q in pids:
            pr = h["progs"][q]
            if pr["kind"] == "genfail":
                exp[q] = ("str", 2000 + pr["err"])
                continue
            if "crash" in v:
                exp[q] = ("str", 3000 + v["crash"])
                continue
            failed = dict(v["failed"])
            m = None
            if 2 * q in failed:
                m = ("join", failed[2 * q])
            if pr["kind"] == "both" and (2 * q + 1) not in failed:
                m = ("should", m if m is not None else ("str", 1000 + pr["inj"]))
            if m is not None:
                exp[q] = m
        if o["exn"] is not None or o["ret"] is None:
            bad.append((k, "check_oracle raised %s on a well-formed batch; faults %s are not reported" % (o["exn"], sorted(exp))))
            if h["mode"] == "seq":
                break
            processed += len(pids)
            continue
        got = dict(o["ret"])
        if set(got) != set(exp):
            bad.append((k, "reported %s but exactly %s are faults" % (sorted(got), sorted(exp))))
        for q in set(got) & set(exp):
            g, e = got[q], exp[q]
            if g != e:
                # when both oracles are violated the message may be either composition; require the prefix rule
                if not (e[0] == "should" and g is not None and g[0] == "should"):
                    bad.append((k, "program %d reported with message %s, expected %s" % (q, g, e)))
        reported_all.update(exp)
        processed += len(pids)
        # saved test cases / leftovers after this batch
        saved = {d[1] for d in o["fs"] if d[0] == "S"}
        want_saved = {q for q in reported_all if h["progs"][q]["kind"] != "genfail"}
        if saved != want_saved:
            bad.append((k, "saved test cases %s, expected %s" % (sorted(saved), sorted(want_saved))))
        if o["passed"] + o["failed"] != processed:
            bad.append((k, "passed+failed = %d after %d programs" % (o["passed"] + o["failed"], processed)))
        if sorted(q for q, _ in o["faults"]) != sorted(reported_all):
            bad.append((k, "faults file lists %s, reported so far %s" % (sorted(q for q, _ in o["faults"]), sorted(reported_all))))
        if o["failed"] != len(reported_all):
            bad.append((k, "failed counter %d but %d programs reported" % (o["failed"], len(reported_all))))
    if died is None:
        left = [d for d in final_fs if d[0] in ("T", "B")]
        if left:
            bad.append((len(obs), "files left behind at the end of the session: %s" % left))
    return bad


def wellformed(h):
    return all(p["tmp"] or p["kind"] == "genfail" for p in h["progs"].values()) and \
        not any(p.get("presaved") for p in h["progs"].values())


def parse_triples(s):
    body = s.split(" : ")[0].strip()
    if body in ("[]", "nil"):
        return []
    return [tuple(int(x) for x in m) for m in re.findall(r"\((\d+),\s*(\d+),\s*(\d+)\)", body)]


@C.matcher("c15_any")
def _never(detail, kf):
    return False


def run(tier, seed, replay=None):
    rep = C.Report("C15", tier, seed, "proof")
    proof_ok = C.proof_part(rep, "Driver/Properties_C15.v",
                            ["Driver/Model.vo", "Driver/Corr.vo", "Driver/Spec.vo", "Driver/SpecOrder.vo", "Driver/Proofs.vo", "Driver/ProofsLoops.vo", "Driver/ProofsOracle.vo", "Driver/ProofsSession.vo"], ["Driver"])
    workdir = tempfile.mkdtemp(prefix="verif_c15_")
    cwd = os.getcwd()
    try:
        os.chdir(workdir)
        world = World(workdir)
        rng = random.Random(C.sub_seed(seed, "c15"))
        hists = []
        if replay:
            d = json.load(open(replay))["detail"]
            hists.append(_fix_hist(d["history"]))
        else:
            for fn in sorted(globmod.glob(os.path.join(C.CORPUS, "C15", "*.json"))):
                hists.append(_fix_hist(json.load(open(fn))["history"]))
            n = 400 if tier == "quick" else 8000
            for i in range(n):
                hists.append(gen_history(rng, malformed=(i % 5 == 4)))
        runs = []
        for h in hists:
            r = Runner(world, h)
            r.run()
            runs.append(r)
    finally:
        os.chdir(cwd)
        shutil.rmtree(workdir, ignore_errors=True)

    chunk = 50
    files = []
    for k in range(0, len(hists), chunk):
        files.append(("c15_%d" % (k // chunk),
                      coq_file([coq_hist(h, r.obs, r.final_fs) for h, r in zip(hists[k:k + chunk], runs[k:k + chunk])])))
    C.clean_cases("c15_")
    res = C.run_case_files(files, timeout=900)
    mism = []
    for k, (name, _) in enumerate(files):
        rc, out = res[name]
        if rc != 0:
            rep.violation("case-file", "case file %s did not evaluate: %s" % (name, out[-400:]),
                          dict(broken=name, log=out[-3000:]), no_input=True)
            continue
        for (hi, bi, ci) in parse_triples(C.parse_eval_outputs(out)[-1]):
            mism.append((k * chunk + hi, bi, ci))
    C.clean_cases("c15_")

    combos = set()
    nbatches = 0
    spec_viol = 0
    judged_bad = {}
    modes = {"seq": 0, "workers": 0}
    kinds = {}
    for hi, (h, r) in enumerate(zip(hists, runs)):
        modes[h["mode"]] += 1
        nbatches += len(r.obs)
        for q, p in h["progs"].items():
            kinds[p["kind"]] = kinds.get(p["kind"], 0) + 1
        for k, v in enumerate(h["verdicts"]):
            pids = range(1 + k * h["bsize"], min(1 + (k + 1) * h["bsize"], h["total"] + 1))
            for q in pids:
                p = h["progs"][q]
                f = dict(v.get("failed", []))
                combos.add((p["kind"], "crash" in v, 2 * q in f, (2 * q + 1) in f))
        if r.json_inconsistent:
            spec_viol += 1
            rep.violation("spec", "history %d: faults.json/stats.json disagree with the in-memory statistics after batch %s"
                          % (hi, r.json_inconsistent), dict(history=h))
        if wellformed(h):
            bad = judge_history(h, r.obs, r.final_fs, r.died)
            if bad:
                judged_bad[hi] = bad
                spec_viol += 1
                rep.violation("spec", "history %d (%s mode): %s" % (hi, h["mode"], bad[0][1]),
                              dict(history=h, problems=bad, observed=r.obs))
    for (hi, bi, ci) in mism:
        what = {0: "returned fault map / exception", 1: "passed/failed counters", 2: "faults map",
                3: "directory tree", 4: "directory tree after the end-of-session cleanup"}.get(ci, str(ci))
        rep.violation("correspondence", "history %d batch %d: model and implementation differ on the %s" % (hi, bi, what),
                      dict(history=hists[hi], observed=runs[hi].obs, final_fs=runs[hi].final_fs,
                           broken="correspondence Driver.Model vs hephaestus.py (%s)" % what),
                      no_input=hi not in judged_bad)
    if not proof_ok and not rep.violations:
        rep.violation("proof", rep.proof_broken, dict(broken=rep.proof_broken), no_input=True)

    rep.add(evaluations=nbatches, histories=len(hists), distinct_nontrivial=len(combos),
            rule="history = session of 1-5 batches of 1-4 programs; per program {generator failed, correct only, "
                 "correct+incorrect}, per file {error with 1-3 messages, none}, per batch {crash, diagnostics}; one in five "
                 "histories is malformed (missing tmp dir / pre-existing saved dir; correspondence only). distinct_nontrivial "
                 "= number of distinct (program kind, crash, correct-file-error, incorrect-file-error) combinations exercised",
            traces_validated_against_impl=len(hists), model_impl_mismatches=len(mism), spec_violations=spec_viol,
            mode_histogram=modes, program_kind_histogram=kinds,
            samples=[dict(history=hists[i], observed=runs[i].obs) for i in (0, len(hists) // 2)],
            trusted_base=C.TRUSTED_BASE_COMMON + [
                "the compiler run and program generation are scripted stand-ins (run_command, gen_program replaced as module attributes)",
                "real process pools, signals and KeyboardInterrupt paths are outside the model; worker mode is driven through check_oracle_mul + update_stats"])
    rep.assumptions = ["file system reduced to the directories the control flow tests (tmp/<pid>, <pid>, batch dir)"]
    return rep.finish()


def _fix_hist(h):
    h = dict(h)
    h["progs"] = {int(k): v for k, v in h["progs"].items()}
    for v in h["verdicts"]:
        if "failed" in v:
            v["failed"] = [(f, list(m)) for f, m in v["failed"]]
    return h
