"""Developer tool: run the reference checker (IR/Check.v) on pickled programs.
usage: ./check-env python harness/checkbin.py <lang> <infer:true|false> file.bin ..."""
import pickle
import sys

ARGS = sys.argv[1:]
import common as C     # noqa: E402

def main():
    lang, infer, files = ARGS[0], ARGS[1], ARGS[2:]
    C.setup_repo_import(0, ["hephaestus.py", "--iterations", "1", "--language", lang])
    import src.args  # noqa: F401
    import tymodel as T
    import wholeprog as W
    import wholecheck
    T.emit_generated()
    L = T.Lang(lang)
    text = W.HDR + "Definition L_%s : lang := %s.\n" % (lang, W.lang_record(L))
    for j, f in enumerate(files):
        p = pickle.load(open(f, "rb"))
        txt, ser, n = W.program_defs(L, p, j)
        text += txt + "\nEval vm_compute in (%s).\n" % W.check_call(lang, j).replace("STRICT", "false").replace("INFER", infer)
    rc, out = C.run_case_files([("dbg_9", text)], timeout=1200)["dbg_9"]
    if rc != 0:
        print(out[-2000:])
        return
    for f, v in zip(files, C.parse_eval_outputs(out)):
        errs = wholecheck.parse_errs(v)
        print(f, len(errs), [(e[0], e[1], e[2][:160]) for e in errs[:4]])

main()
