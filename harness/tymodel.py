"""Type terms <-> real Python type objects, per-language built-in tables, random class
tables and relation-directed type pairs.  Shared by C06 C07 C08 C09 C10.

Term syntax (Python tuples) mirrors coq/Types/Syntax.v:
  ('B', bid, prim) | ('C', cid) | ('A', cid, [args]) | ('K', cid)
  | ('V', x, var, bound|None) | ('W', var, bound|None) | ('N',)
var in {0: invariant, 1: covariant, 2: contravariant} (types.Variance values).
"""
import os

import common as C

LANGS = ["kotlin", "java", "groovy", "scala"]
VAR = {0: "Inv", 1: "Cov", 2: "Contra"}
ARRAY_CID = 90
FUNC_CID = 91           # Function0 = 91, Function1 = 92, ...
MAX_FUNC = 8
EXTRA_CID = 100         # further generic built-in classes (Kotlin SpecializedArrayType, Scala Seq)


class Lang:
    """Built-in world of one language, introspected from the imported modules."""

    def __init__(self, lang):
        from src.ir import (kotlin_types, java_types, groovy_types, scala_types, types as tp)
        self.tp = tp
        self.lang = lang
        mod = {"kotlin": kotlin_types, "java": java_types, "groovy": groovy_types,
               "scala": scala_types}[lang]
        self.mod = mod
        self.factory = {"kotlin": kotlin_types.KotlinBuiltinFactory, "java": java_types.JavaBuiltinFactory,
                        "groovy": groovy_types.GroovyBuiltinFactory, "scala": scala_types.ScalaBuiltinFactory}[lang]()
        f = self.factory
        insts = [t for t in f.get_non_nothing_types()
                 if isinstance(t, tp.Builtin) and not isinstance(t, tp.TypeConstructor)]
        insts.append(f.get_void_type())
        try:
            insts.append(f.get_nothing())
        except NotImplementedError:
            pass
        if hasattr(f, "get_primitive_types"):
            insts += list(f.get_primitive_types())
        classes = {}
        for t in insts:
            classes.setdefault(type(t), None)
        # closure under supertypes
        todo = list(insts)
        while todo:
            t = todo.pop()
            for s in list(t.supertypes):
                if isinstance(s, tp.Builtin) and not isinstance(s, tp.TypeConstructor) and type(s) not in classes:
                    classes[type(s)] = None
                    todo.append(s)
        self.classes = sorted(classes, key=lambda c: c.__name__)
        self.bid = {c: i + 1 for i, c in enumerate(self.classes)}
        self.inst = {}
        self.has_prim = {}
        for c in self.classes:
            self.inst[(self.bid[c], False)] = self._mk(c, False)
            p = self._mk(c, True)
            self.has_prim[self.bid[c]] = p is not None
            if p is not None:
                self.inst[(self.bid[c], True)] = p
        self.info = {}
        probe = tp.SimpleClassifier("__verif_unrelated__")
        for c in self.classes:
            b = self.bid[c]
            t = self.inst[(b, False)]
            sup = [self.bid[type(s)] for s in t.supertypes]
            bottom = bool(t.is_subtype(probe))
            extra = []
            for c2 in self.classes:
                o = self.inst[(self.bid[c2], False)]
                for me in [t] + ([self.inst[(b, True)]] if self.has_prim[b] else []):
                    if me.is_assignable(o) and not me.is_subtype(o) and self.bid[c2] not in extra:
                        extra.append(self.bid[c2])
            self.info[b] = dict(name=c.__name__, supers=sup, bottom=bottom, assign=extra,
                                has_prim=self.has_prim[b])
        self.any_bid = self.bid[type(f.get_any_type())]
        arr = f.get_array_type()
        self.array_is_java = bool(arr == java_types.Array)
        self.array = arr
        self.funcs = [f.get_function_type(i) for i in range(MAX_FUNC + 1)]
        # generic built-in classes: Array, FunctionN, and whatever else the factory offers
        # (Kotlin's SpecializedArrayType -- same NAME as Array --, Scala's Seq)
        self.gen_cons = {ARRAY_CID: arr}
        for i, fn in enumerate(self.funcs):
            self.gen_cons[FUNC_CID + i] = fn
        nxt = EXTRA_CID
        for t in f.get_non_nothing_types():
            con = None
            if isinstance(t, tp.ParameterizedType):
                con = t.t_constructor
            elif isinstance(t, tp.TypeConstructor):
                con = t
            if con is None:
                continue
            if any(type(c) is type(con) and c.name == con.name for c in self.gen_cons.values()):
                continue
            self.gen_cons[nxt] = con
            nxt += 1
        self.con_key = {(type(c), c.name): cid for cid, c in self.gen_cons.items()}
        self._bclasses = None

    def _mk(self, c, prim):
        import inspect
        try:
            sig = inspect.signature(c.__init__)
        except (TypeError, ValueError):
            return c() if not prim else None
        if "primitive" in sig.parameters:
            return c(primitive=prim)
        return None if prim else c()

    def term_of_builtin(self, t):
        return ("B", self.bid[type(t)], bool(getattr(t, "primitive", False)) if self.has_prim[self.bid[type(t)]] else False)

    def builtin_terms(self, prims=True):
        out = []
        for (b, p) in sorted(self.inst):
            if p and not prims:
                continue
            out.append(("B", b, p))
        return out

    # ----- generic built-in classes as table entries
    def builtin_classes(self):
        """cid -> (params terms, supers terms) for Array, FunctionN and the other generic built-ins"""
        if self._bclasses is not None:
            return self._bclasses
        out = {}
        for cid, con in self.gen_cons.items():
            params = []
            for k, p in enumerate(con.type_parameters):
                params.append(("V", 300 + (cid - ARRAY_CID) * 10 + k, p.variance.value, None))
            sups = [self.term_of_builtin(s) for s in con.supertypes]
            out[cid] = (params, sups)
        self._bclasses = out
        return out

    def coq_btable(self):
        rows = []
        for b in sorted(self.info):
            i = self.info[b]
            rows.append("(%d, {| b_supers := %s; b_bottom := %s; b_assign := %s; b_has_prim := %s |}) (* %s *)" % (
                b, C.clist(i["supers"]), C.cbool(i["bottom"]), C.clist(i["assign"]), C.cbool(i["has_prim"]), i["name"]))
        return "[\n  " + ";\n  ".join(rows) + "\n]"


def emit_generated(path=None):
    """Generated/Builtins.v: regenerated from the working tree on every run."""
    path = path or os.path.join(C.COQ, "Generated", "Builtins.v")
    out = ["(* GENERATED by harness/tymodel.py from /repo/src/ir/*_types.py -- do not edit *)",
           "From Coq Require Import List Arith Bool.", "Import ListNotations.",
           "From Heph Require Import Types.Syntax.", ""]
    for lang in LANGS:
        L = Lang(lang)
        out.append("Definition bt_%s : btable := %s." % (lang, L.coq_btable()))
        out.append("Definition any_%s : nat := %d." % (lang, L.any_bid))
        out.append("Definition array_%s : option nat := %s." % (lang, "Some %d" % ARRAY_CID if L.array_is_java else "None"))
        bc = L.builtin_classes()
        out.append("Definition bclasses_%s : ctable := %s." % (lang, coq_ctable(bc)))
        out.append("")
    txt = "\n".join(out) + "\n"
    old = open(path).read() if os.path.exists(path) else None
    if old != txt:
        with open(path, "w") as f:
            f.write(txt)
    return path


# --------------------------------------------------------------------------- terms -> Coq

def cterm(t):
    k = t[0]
    if k == "B":
        return "(TBuiltin %d %s)" % (t[1], C.cbool(t[2]))
    if k == "C":
        return "(TClass %d)" % t[1]
    if k == "A":
        return "(TApp %d %s)" % (t[1], C.clist(t[2], cterm))
    if k == "K":
        return "(TCon %d)" % t[1]
    if k == "V":
        return "(TVar %d %s %s)" % (t[1], VAR[t[2]], "None" if t[3] is None else "(Some %s)" % cterm(t[3]))
    if k == "W":
        return "(TWild %s %s)" % (VAR[t[1]], "None" if t[2] is None else "(Some %s)" % cterm(t[2]))
    if k == "N":
        return "TNothing"
    raise ValueError(t)


def coq_ctable(tab):
    rows = []
    for cid in sorted(tab):
        params, sups = tab[cid]
        rows.append("(%d, {| c_params := %s; c_supers := %s |})" % (cid, C.clist(params, cterm), C.clist(sups, cterm)))
    return "[" + "; ".join(rows) + "]"


# --------------------------------------------------------------------------- terms -> objects

class Builder:
    """Builds real type objects from (table, term) with the real constructors."""

    def __init__(self, L, table):
        self.L = L
        self.tp = L.tp
        self.table = dict(table)
        self.cons = {}
        bc = L.builtin_classes()
        for cid in bc:
            self.table.setdefault(cid, bc[cid])
        for cid, con in L.gen_cons.items():
            self.cons[cid] = con
        self.variance = {0: self.tp.Invariant, 1: self.tp.Covariant, 2: self.tp.Contravariant}

    def cls(self, cid):
        if cid in self.cons:
            return self.cons[cid]
        params, sups = self.table[cid]
        name = "K%d" % cid
        sup_objs = [self.obj(s) for s in sups]
        if params:
            o = self.tp.TypeConstructor(name, [self.obj(p) for p in params], sup_objs)
        else:
            o = self.tp.SimpleClassifier(name, sup_objs)
        self.cons[cid] = o
        return o

    def obj(self, t):
        k = t[0]
        if k == "B":
            return self.L.inst[(t[1], t[2])]
        if k == "C":
            return self.cls(t[1])
        if k == "K":
            return self.cls(t[1])
        if k == "A":
            return self.cls(t[1]).new([self.obj(a) for a in t[2]])
        if k == "V":
            return self.tp.TypeParameter("X%d" % t[1], self.variance[t[2]],
                                         None if t[3] is None else self.obj(t[3]))
        if k == "W":
            return self.tp.WildCardType(None if t[2] is None else self.obj(t[2]), self.variance[t[1]])
        if k == "N":
            return self.tp.Nothing
        raise ValueError(t)


def reify(L, o, classes=None):
    """Real type object -> term (for objects built by Builder, or by the real code from
    such objects).  classes: dict name -> cid."""
    tp = L.tp
    if o is tp.Nothing:
        return ("N",)
    if isinstance(o, tp.Builtin) and not isinstance(o, tp.TypeConstructor):
        return L.term_of_builtin(o)
    if isinstance(o, tp.WildCardType):
        return ("W", o.variance.value, None if o.bound is None else reify(L, o.bound, classes))
    if isinstance(o, tp.TypeParameter):
        return ("V", int(o.name[1:]), o.variance.value, None if o.bound is None else reify(L, o.bound, classes))
    if isinstance(o, tp.ParameterizedType):
        return ("A", _cid(L, o.t_constructor), [reify(L, a, classes) for a in o.type_args])
    if isinstance(o, tp.TypeConstructor):
        return ("K", _cid(L, o))
    if isinstance(o, tp.SimpleClassifier):
        return ("C", int(o.name[1:]))
    raise ValueError("cannot reify %r" % (o,))


def _cid(L, con):
    k = (type(con), con.name)
    if k in L.con_key:
        return L.con_key[k]
    return int(con.name[1:])


# --------------------------------------------------------------------------- random tables

def gen_table(rng, L, conforming=True):
    """Class table: cid -> (params, supers).  conforming: variant parameters occur in
    supertypes only where the variance allows (Kotlin/Scala's declaration check)."""
    n = rng.randint(2, 6)
    tab = {}
    ground_pool = [t for t in L.builtin_terms(prims=False)
                   if not L.info[t[1]]["bottom"] and L.info[t[1]]["name"] != "VoidType"
                   and L.info[t[1]]["name"] != "UnitType"]
    for cid in range(1, n + 1):
        params = []
        if rng.random() < 0.6:
            for k in range(rng.choice([1, 1, 2, 2, 3])):
                var = rng.choice([0, 0, 1, 2])
                bound = None
                r = rng.random()
                if r < 0.25:
                    bound = gen_ground(rng, L, tab, ground_pool, 1)
                elif r < 0.35 and params:
                    bound = params[-1]                                   # T2 : T1
                elif r < 0.45 and params:
                    gens1 = [g for g in tab if len(tab[g][0]) == 1]
                    if gens1:
                        bound = ("A", rng.choice(gens1), [params[-1]])   # T2 : Box<T1>
                x = cid * 10 + k if rng.random() < 0.9 else rng.choice([11, 21, 31])
                if any(p[1] == x for p in params):
                    x = cid * 10 + k
                while any(p[1] == x for p in params):
                    x += 100            # cid*10+k can itself be 11 / 21 / 31: two parameters of one class never share a name
                params.append(("V", x, var, bound))
        sups = []
        cands = [c for c in tab]
        nsup = rng.choice([0, 1, 1, 1, 2]) if cands else 0
        for c in rng.sample(cands, min(nsup, len(cands))):
            cparams = tab[c][0]
            if not cparams:
                sups.append(("C", c))
            else:
                args = []
                for p in cparams:
                    r = rng.random()
                    usable = [q for q in params if (not conforming) or q[2] == 0 or q[2] == p[2]]
                    if r < 0.5 and usable:
                        args.append(rng.choice(usable))
                    elif r < 0.65 and params and cands:
                        # nested occurrence  Y<L<T>>
                        gens = [g for g in cands if tab[g][0] and len(tab[g][0]) == 1]
                        q = rng.choice(params)
                        if gens and ((not conforming) or q[2] == 0):
                            if rng.random() < 0.25:
                                # the parameter occurs only under a use-site projection:  Y<L<out T>>
                                args.append(("A", rng.choice(gens), [("W", rng.choice([1, 2]), q)]))
                            else:
                                args.append(("A", rng.choice(gens), [q]))
                        else:
                            args.append(gen_ground(rng, L, tab, ground_pool, 1))
                    else:
                        args.append(gen_ground(rng, L, tab, ground_pool, 1))
                sups.append(("A", c, args))
        if rng.random() < 0.3:
            sups.append(("B", L.any_bid, False))
        tab[cid] = (params, sups)
    return tab


def gen_ground(rng, L, tab, pool, depth):
    """a closed type over the table whose arguments respect the declared bounds"""
    r = rng.random()
    nong = [c for c in tab if not tab[c][0]]
    gen = [c for c in tab if tab[c][0]]
    if r < 0.4 or not tab:
        return rng.choice(pool)
    if r < 0.7 and nong:
        return ("C", rng.choice(nong))
    if gen and depth > 0:
        c = rng.choice(gen)
        return ("A", c, bounded_args(rng, L, tab, pool, depth - 1, tab[c][0]))
    return rng.choice(pool)


def bounded_args(rng, L, tab, pool, depth, params):
    args = []
    m = {}
    for p in params:
        if p[3] is None:
            a = gen_ground(rng, L, tab, pool, depth)
        else:
            a = subst_term(m, p[3])          # the bound itself, instantiated with the earlier arguments
            if not _closed(a):
                a = gen_ground(rng, L, tab, pool, 0)
        m[_key(p)] = a
        args.append(a)
    return args


def _closed(t):
    if t[0] in ("V", "K"):
        return False
    if t[0] == "A":
        return all(_closed(a) for a in t[2])
    if t[0] == "W":
        return t[2] is None or _closed(t[2])
    return True


def gen_type(rng, L, tab, depth, scope, malformed=False):
    """A random type over the table; scope: list of TVar terms in scope."""
    pool = L.builtin_terms(prims=True)
    r = rng.random()
    nong = [c for c in tab if not tab[c][0]]
    gen = [c for c in tab if tab[c][0]] + [ARRAY_CID] + ([FUNC_CID + 1] if rng.random() < 0.2 else []) + \
        [c for c in L.gen_cons if c >= EXTRA_CID]
    if r < 0.18:
        return rng.choice(pool)
    if r < 0.36 and nong:
        return ("C", rng.choice(nong))
    if r < 0.46 and scope:
        return rng.choice(scope)
    if r < 0.48:
        return ("N",)
    if r < 0.50 and gen and malformed:
        return ("K", rng.choice(gen))
    if depth <= 0 or not gen:
        return rng.choice(pool) if not nong or rng.random() < 0.5 else ("C", rng.choice(nong))
    c = rng.choice(gen)
    params = tab[c][0] if c in tab else L.builtin_classes()[c][0]
    args = [gen_arg(rng, L, tab, depth - 1, scope, p, malformed) for p in params]
    return ("A", c, args)


def gen_arg(rng, L, tab, depth, scope, param, malformed=False):
    t = gen_type(rng, L, tab, depth, scope, malformed)
    r = rng.random()
    pv = param[2]
    if r < 0.55:
        return t
    if r < 0.62:
        return ("W", 0, None)                       # star
    if malformed and r < 0.66:
        return ("W", rng.choice([0, 1, 2]), t if rng.random() < 0.8 else None)
    # a projection compatible with the declared variance (what _get_type_arg_variance yields)
    if pv == 0:
        return ("W", rng.choice([1, 2]), t)
    if r < 0.8:
        return ("W", pv, t)
    return t


def all_supers_terms(tab, L, t):
    """declared (substituted) direct supertypes of a ground-ish term, for perturbation"""
    if t[0] == "C":
        return list(tab[t[1]][1])
    if t[0] == "B":
        return [("B", s, False) for s in L.info[t[1]]["supers"]] if not t[2] else []
    return []


def perturb(rng, L, tab, s, scope, malformed=False):
    """Derive t from s by one relation-directed edit."""
    k = s[0]
    r = rng.random()
    if k == "A":
        params = tab[s[1]][0] if s[1] in tab else L.builtin_classes()[s[1]][0]
        if r < 0.15:
            # move to a declared supertype (substituted by hand: only for simple cases)
            sups = tab[s[1]][1] if s[1] in tab else []
            if sups:
                return subst_term(dict(zip([_key(p) for p in params], s[2])), rng.choice(sups))
        i = rng.randrange(len(s[2]))
        a = s[2][i]
        args = list(s[2])
        r2 = rng.random()
        if a[0] == "W":
            if r2 < 0.25 and a[2] is not None:
                args[i] = a[2]                                            # strip
            elif r2 < 0.45 and a[2] is not None:
                args[i] = ("W", {1: 2, 2: 1, 0: 1}[a[1]], a[2])             # flip
            elif r2 < 0.6:
                args[i] = ("W", 0, None)                                  # star
            elif a[2] is not None:
                args[i] = ("W", a[1], perturb(rng, L, tab, a[2], scope, malformed))
        else:
            if r2 < 0.25:
                args[i] = ("W", 1, a)                                     # wrap out
            elif r2 < 0.45:
                args[i] = ("W", 2, a)                                     # wrap in
            elif r2 < 0.55:
                args[i] = ("W", 0, None)
            elif r2 < 0.7:
                args[i] = ("W", rng.choice([1, 2]), perturb(rng, L, tab, a, scope, malformed))
            else:
                args[i] = perturb(rng, L, tab, a, scope, malformed)
        return ("A", s[1], args)
    if k in ("C", "B"):
        if r < 0.5:
            sups = all_supers_terms(tab, L, s)
            if sups:
                return rng.choice(sups)
        if r < 0.8:
            # a declared subtype
            subs = [("C", c) for c in tab if not tab[c][0] and s in tab[c][1]]
            if k == "B":
                subs += [("B", b, False) for b in L.info if s[1] in L.info[b]["supers"]]
            if subs:
                return rng.choice(subs)
        return gen_type(rng, L, tab, 1, scope, malformed)
    if k == "V":
        if s[3] is not None and s[3][0] == "A" and r < 0.35:
            return rng.choice(s[3][2])          # something mentioned inside the bound
        if s[3] is not None and r < 0.7:
            return s[3]
        return gen_type(rng, L, tab, 1, scope, malformed)
    return gen_type(rng, L, tab, 1, scope, malformed)


def _key(p):
    return (p[1], p[2])


def subst_term(m, t):
    """naive substitution on terms (harness-side only, for deriving related pairs)"""
    k = t[0]
    if k == "V":
        return m.get(_key(t), t)
    if k == "A":
        return ("A", t[1], [subst_term(m, a) for a in t[2]])
    if k == "W" and t[2] is not None:
        return ("W", t[1], subst_term(m, t[2]))
    return t


def nested_nothing(t, top=True):
    if t[0] == "N":
        return not top
    if t[0] == "A":
        return any(nested_nothing(a, False) for a in t[2])
    if t[0] == "W" and t[2] is not None:
        return nested_nothing(t[2], False)
    if t[0] == "V" and t[3] is not None:
        return nested_nothing(t[3], False)
    return False


def gen_pair(rng, L, tab, malformed=False):
    while True:
        s, t = gen_pair1(rng, L, tab, malformed)
        if not nested_nothing(s) and not nested_nothing(t):
            return s, t


def gen_pair1(rng, L, tab, malformed=False, _top=True):
    if _top and rng.random() < 0.08:
        # two projections compared directly (WildCardType.is_subtype): same or different use-site variance,
        # bounds related like any other pair
        a, b = gen_pair1(rng, L, tab, malformed, _top=False)
        return ("W", rng.choice([1, 2]), a), ("W", rng.choice([1, 2]), b)
    scope = []
    if rng.random() < 0.35:
        # type variables of some class / function in scope
        gens = [c for c in tab if tab[c][0]]
        if gens:
            scope = list(tab[rng.choice(gens)][0])
        if rng.random() < 0.3:
            scope.append(("V", 77, 0, rng.choice([None, ("B", L.any_bid, False)])))
    s = gen_type(rng, L, tab, rng.choice([1, 2, 2, 3]), scope, malformed)
    r = rng.random()
    if r < 0.6:
        t = perturb(rng, L, tab, s, scope, malformed)
        if rng.random() < 0.3:
            t = perturb(rng, L, tab, t, scope, malformed)
        if rng.random() < 0.5:
            s, t = t, s
    elif r < 0.75:
        t = s
    else:
        t = gen_type(rng, L, tab, rng.choice([1, 2]), scope, malformed)
    return s, t


def term_depth(t):
    if t[0] == "A":
        return 1 + max([term_depth(a) for a in t[2]] + [0])
    if t[0] in ("W",) and t[2] is not None:
        return term_depth(t[2])
    if t[0] == "V" and t[3] is not None:
        return term_depth(t[3])
    return 0


def term_kinds(t, acc):
    acc[t[0] + (str(t[1]) if t[0] == "W" else "")] = acc.get(t[0] + (str(t[1]) if t[0] == "W" else ""), 0) + 1
    if t[0] == "A":
        for a in t[2]:
            term_kinds(a, acc)
    elif t[0] == "W" and t[2] is not None:
        term_kinds(t[2], acc)
    elif t[0] == "V" and t[3] is not None:
        term_kinds(t[3], acc)
    return acc


def has_prim_arg(t, top=True):
    """a primitive built-in in a type-argument position (outside Java arrays)"""
    if t[0] == "B":
        return (not top) and t[2]
    if t[0] == "A":
        if t[1] == ARRAY_CID:
            return any(has_prim_arg(a, a[0] == "B") for a in t[2])
        return any(has_prim_arg(a, False) for a in t[2])
    if t[0] == "W" and t[2] is not None:
        return has_prim_arg(t[2], False)
    if t[0] == "V" and t[3] is not None:
        return has_prim_arg(t[3], False)
    return False


def well_bounded(L, b, o):
    """every type argument (for a projection: its bound) is within the declared bound of its
    parameter after substituting the other arguments -- judged with the real is_subtype"""
    tp = L.tp
    if isinstance(o, tp.ParameterizedType):
        tmap = o.get_type_variable_assignments()
        plain = {k: (v.bound if isinstance(v, tp.WildCardType) and v.bound is not None else v) for k, v in tmap.items()}
        for prm, arg in tmap.items():
            if isinstance(arg, tp.WildCardType):
                if arg.bound is None:
                    continue
                a = arg.bound
                if not well_bounded(L, b, a):
                    return False
                if arg.variance.is_contravariant():
                    continue
            else:
                a = arg
                if not well_bounded(L, b, a):
                    return False
            if prm.bound is not None:
                bd = tp.substitute_type(prm.bound, plain)
                if isinstance(bd, tp.WildCardType):
                    return False
                try:
                    if not (a == bd or a.is_subtype(bd)):
                        return False
                except Exception:           # noqa: BLE001
                    return False
        return True
    if isinstance(o, tp.TypeParameter) and o.bound is not None:
        return well_bounded(L, b, o.bound)
    return True
