"""ast.Program -> the printing-oriented tree of coq/IR/PrintScala.v (pprogram / pnode / ptype).

Extends ir2print.py (the Kotlin serialiser) for ScalaTranslator: the type classes the Scala
translator compares with (sc.Unit / Long / Short / Byte / Number / Float / Any by exact class,
type parameters and unapplied type constructors for has_type_variables / is_type_var), the
func_type of a function declaration, no SAM table.  Fail-closed like ir2print.PSer.

FuzzScala: the random-tree generator of ir2print.Fuzz over the scala_types builtins, plus the
shapes only scala.py distinguishes (arrays of type variables, New of Any, function references /
lambdas as operands, dotted call names, references inside Unit blocks, negated `is`).
"""
import common as C
import ir2print as P
from ir2print import SerError, cstr, cbool, copt, clist, first_diff, GenTimeout, with_timeout  # noqa: F401


class PSerScala(P.PSer):
    def __init__(self, program):
        from src.ir import ast, types as tp, scala_types as sc
        self.ast, self.tp, self.sc = ast, tp, sc
        self.program = program
        self.nnodes = 0
        self.ntypes = 0
        self.kinds = {}
        self.exact = {sc.UnitType: "CUnit", sc.LongType: "CLong", sc.ShortType: "CShort",
                      sc.ByteType: "CByte", sc.NumberType: "CNumber", sc.FloatType: "CFloat",
                      sc.AnyType: "CAny"}
        # what the translator's comparisons `x == sc.T` / dict lookups resolve to
        for cls, c in self.exact.items():
            probe = cls()
            for other, c2 in self.exact.items():
                if (probe == other()) != (cls is other):
                    raise SerError("Builtin.__eq__ is not class equality: %s / %s" % (cls.__name__, other.__name__))
        self.classes = program.context.get_classes(("global",), glob=True)
        for name, d in self.classes.items():
            if d.name != name:
                raise SerError("class registered under another name: %s / %s" % (name, d.name))

    # ------------------------------------------------------------------ types
    def ty(self, t):
        tp = self.tp
        self.ntypes += 1
        if isinstance(t, tp.WildCardType):
            if not t.is_wildcard() or t.is_type_var() or t.is_parameterized():
                raise SerError("WildCardType predicates")
            if t.bound is not None and not t.bound:
                raise SerError("falsy wildcard bound")
            return "(TWild %d %s)" % (self.variance(t.variance), copt(t.bound, self.ty))
        if not isinstance(t, tp.Type):
            raise SerError("not a type: %r (%s)" % (t, type(t).__name__))
        if t.is_wildcard():
            raise SerError("non-WildCardType whose is_wildcard() holds: %s" % type(t).__name__)
        if isinstance(t, tp.ParameterizedType):
            if not t.t_constructor:
                raise SerError("falsy t_constructor")
            if not t.is_parameterized() or t.is_type_var():
                raise SerError("ParameterizedType predicates")
            ci = getattr(t, "can_infer_type_args", None) is True
            return "(TApp %s %s %s)" % (cstr(t.name), cbool(ci), clist([self.ty(a) for a in t.type_args]))
        if getattr(t, "t_constructor", None):
            raise SerError("t_constructor on a non-parameterized type %s" % type(t).__name__)
        if t.is_parameterized():
            raise SerError("is_parameterized() on a non-ParameterizedType %s" % type(t).__name__)
        name = t.get_name()
        if name != str(t.name):
            raise SerError("get_name() is not the name for %s" % type(t).__name__)
        if type(t) in self.exact:
            cls, htv, itv = self.exact[type(t)], False, False
        elif isinstance(t, tp.TypeParameter):
            cls, htv, itv = "CTypeVar", True, True
        elif isinstance(t, tp.TypeConstructor):
            cls, htv, itv = "CTypeCon", True, False
        elif isinstance(t, tp.Builtin):
            cls, htv, itv = "CBuiltin", False, False
        elif isinstance(t, tp.SimpleClassifier):
            cls, htv, itv = "CSimple", False, False
        elif isinstance(t, (tp.Object, tp.NothingType)):
            cls, htv, itv = "COther", None, False
        else:
            raise SerError("cannot serialise type %r of class %s" % (t, type(t).__name__))
        if t.is_type_var() is not itv:
            raise SerError("is_type_var() of %s" % type(t).__name__)
        if htv is not None and t.has_type_variables() is not htv:
            raise SerError("has_type_variables() of %s" % type(t).__name__)
        return "(TName %s %s)" % (cls, cstr(name))

    # ------------------------------------------------------------------ nodes
    def node(self, n):
        a = self.ast
        if n.__class__ is a.FunctionDeclaration:
            self.nnodes += 1
            self.kinds["FunctionDeclaration"] = self.kinds.get("FunctionDeclaration", 0) + 1
            hb = self.truthy_is_present(n.body, "FunctionDeclaration.body")
            if n.ret_type is not None and not n.ret_type:
                raise SerError("falsy ret_type")
            if n.func_type not in (a.FunctionDeclaration.CLASS_METHOD, a.FunctionDeclaration.FUNCTION):
                raise SerError("func_type %r" % (n.func_type,))
            k = "KFunc %s %s %s %s %s %s %s %d %d" % (
                cstr(n.name), self.oty(n.ret_type), self.ty(n.get_type()), cbool(bool(n.is_final)),
                cbool(n.func_type == a.FunctionDeclaration.CLASS_METHOD), cbool(bool(n.override)), cbool(hb),
                len(n.params), len(n.type_parameters))
            return "(PN (%s) %s)" % (k, clist([self.node(c) for c in n.children()]))
        if n.__class__ is a.ClassDeclaration:
            if n.get_class_prefix() != {0: "class", 1: "interface", 2: "abstract class"}.get(n.class_type):
                raise SerError("get_class_prefix")
        if n.__class__ is a.Is and n.rexpr is None:
            raise SerError("Is without type")
        return super().node(n)

    def prog(self):
        if type(self.program) is not self.ast.Program:
            raise SerError("not a Program")
        return "(mkProgram %s)" % clist([self.node(d) for d in self.program.children()])


HEADER = (C.CASE_HEADER + "From Coq Require Import String Ascii List Arith Bool.\nImport ListNotations.\n"
          "From Heph Require Import IR.PrintScala.\nOpen Scope string_scope.\nOpen Scope list_scope.\n")


class FuzzScala(P.Fuzz):
    """ir2print.Fuzz over the Scala builtins (self.kt is scala_types: every builtin name the base
    class uses exists there, except the specialised arrays, which ty / array_ty replace)."""

    def __init__(self, rng):
        from src.ir import ast, types as tp, scala_types as sc, context as ctx
        self.ast, self.tp, self.kt, self.sc, self.ctx = ast, tp, sc, sc, ctx
        self.r = rng
        self.n = 0
        self.class_names = []
        self.class_tparams = {}
        self.words = ["x", "foo", "bar", "baz", "qux", "item", "count", "node", "value", "acc"]

    def ty(self, d=0):
        r, tp, sc = self.r, self.tp, self.sc
        c = r.random()
        if c < 0.4 or d > 2:
            return r.choice([sc.Any, sc.AnyRef, sc.Unit, sc.Number, sc.Integer, sc.Short, sc.Long, sc.Byte, sc.Float,
                             sc.Double, sc.Char, sc.String, sc.Boolean, sc.Nothing, tp.TypeParameter("T"),
                             tp.TypeParameter("U", tp.Covariant, sc.Number)])
        if c < 0.55 and self.class_names:
            nm = r.choice(self.class_names)
            if self.class_tparams[nm]:
                con = tp.TypeConstructor(nm, self.class_tparams[nm])
                t = tp.ParameterizedType(con, [self.targ(d + 1) for _ in self.class_tparams[nm]])
                if r.random() < 0.3:
                    t.can_infer_type_args = True
                return t
            return tp.SimpleClassifier(nm)
        if c < 0.62:
            return sc.Seq.new([self.targ(d + 1)])
        if c < 0.66:
            return r.choice([sc.Array, sc.Seq, sc.FunctionType(1)])     # unapplied type constructors
        if c < 0.85:
            return sc.Array.new([self.targ(d + 1)])
        n = r.randint(0, 2)
        return sc.FunctionType(n).new([self.ty(d + 1) for _ in range(n + 1)])

    def array_ty(self):
        r, tp, sc = self.r, self.tp, self.sc
        c = r.random()
        if c < 0.3:
            return sc.Array.new([r.choice([tp.TypeParameter("T"), tp.TypeParameter("U", tp.Covariant, sc.Number)])])
        if c < 0.45:
            return sc.Array.new([sc.Array.new([tp.TypeParameter("T")])])
        if c < 0.55:
            return sc.Array.new([tp.WildCardType(tp.TypeParameter("T"), tp.Covariant)])
        t = self.targ(1)
        if isinstance(t, tp.WildCardType) and t.bound is None and r.random() < 0.9:
            t = self.ty(1)      # get_type_name of a star projection raises: keep few of them
        return sc.Array.new([t])

    def leaf(self):
        r, a, sc = self.r, self.ast, self.sc
        c = r.randint(0, 8)
        if c == 0:
            return a.IntegerConstant(r.randint(-100, 100),
                                     r.choice([sc.Integer, sc.Long, sc.Short, sc.Byte, sc.Number, None, sc.Any]))
        if c == 8:
            return a.New(sc.Any, [])
        return super().leaf()

    def expr(self, d):
        r, a = self.r, self.ast
        if d <= 4 and r.random() < 0.12:
            c = r.randint(0, 4)
            if c == 0:      # operands that visit_binary_op parenthesises
                def side():
                    x = r.random()
                    if x < 0.35:
                        return self.lam(d + 1)
                    if x < 0.7:
                        return a.FunctionReference(self.name("ref"), self.expr(d + 2) if r.random() < 0.5 else None, self.ty())
                    return self.expr(d + 1)
                cls = r.choice([a.LogicalExpr, a.EqualityExpr, a.ComparisonExpr, a.ArithExpr])
                return cls(side(), side(), r.choice(cls.ALL_OPERATORS))
            if c == 1:      # dotted names, with and without receiver
                nm = r.choice(["Main.%s", "a.b.%s", ".%s", "%s.", "%s"]) % self.name("call")
                cargs = [a.CallArgument(e, self.name("n") if r.random() < 0.3 else None) for e in self.args(d)]
                fc = a.FunctionCall(nm, cargs, self.expr(d + 1) if r.random() < 0.3 else None,
                                    [self.ty() for _ in range(r.randint(0, 2))])
                fc.can_infer_type_args = r.random() < 0.4
                return fc
            if c == 2:      # statements of a block of a Unit lambda / function: references get `val _y = `
                sc = self.sc
                ps = [a.ParameterDeclaration(self.name("p"), self.ty()) for _ in range(r.randint(0, 1))]
                stmts = [a.FunctionReference(self.name("ref"), self.expr(d + 2) if r.random() < 0.5 else None, self.ty())
                         if r.random() < 0.6 else self.stmt(d + 1) for _ in range(r.randint(1, 3))]
                return a.Lambda(self.name("lambda"), ps, r.choice([sc.Unit, sc.Unit, sc.Integer, None]),
                                a.Block(stmts, is_func_block=r.random() < 0.5), self.ty())
            if c == 3:
                return a.New(self.sc.Any if r.random() < 0.5 else self.sc.AnyRef, self.args(d))
            return a.Is(self.expr(d + 1), self.ty(), r.random() < 0.5)
        return super().expr(d)

    def func(self, d, method=False):
        f = super().func(d, method)
        r, a, sc = self.r, self.ast, self.sc
        if r.random() < 0.25:
            # a Unit function whose block has function references as statements
            f.ret_type = sc.Unit if r.random() < 0.7 else None
            f.inferred_type = sc.Unit if r.random() < 0.8 else f.inferred_type
            if f.body is not None and isinstance(f.body, a.Block):
                f.body.body.insert(r.randint(0, len(f.body.body)),
                                   a.FunctionReference(self.name("ref"), None, self.ty()))
        return f

    def program(self):
        a = self.ast
        p = a.Program(self.ctx.Context(), "scala")
        for _ in range(self.r.randint(2, 6)):
            c = self.r.random()
            d = self.cls() if c < 0.45 else (self.func(0) if c < 0.8 else self.var(0))
            p.add_declaration(d)
        return p
