"""C01 / C05: the declarative specifications of the self-contained sub-checkers (coq/IR/CheckSpec.v, proved in
IR/CheckSpecProofs.v, stated in IR/Properties_C0x_spec.v) and, for C05, the correspondence between the reference
checker's duplicate / reserved-word verdicts (codes 21, 22) and the exhaustive scanner IR/ScopeScan.v, which is
proved equivalent to ScopesChecked / ScopesExtra for all trees:

  * every generated program: scan_checked ++ scan_extra evaluated in the kernel; its 21/22 errors must be exactly the
    reference checker's; clean programs get a kernel theorem  ScopesIntended kw p
  * directed mutants of generated programs (a second declaration of a block / parameter list renamed to the first
    one's name, the name of a block-local variable made reserved; deepest candidates first): both must report the same
    positions -- makes the agreement non-vacuous on nested positions of real programs
"""
import os
import pickle
import random
import re
import time

import common as C
import ir2coq
import wholeprog as W

HDR = W.HDR + "From Heph Require Import IR.CheckSpec IR.ScopeScan IR.Properties_C05_spec.\n"
EXTRA = {31: "two fields / two functions of one class share a name", 32: "two parameters of a lambda share a name",
         33: "two top-level declarations of one kind share a name", 34: "reserved word used as the name of a declaration"}


def spec_proof(rep, pid):
    pr = C.check_properties_file("IR/Properties_%s_spec.v" % pid, ["Generated/Builtins.vo", "IR/Check.vo"])
    return C.proof_part_extra(rep, pr)


def parse_serrs(v):
    body = v.split(" : list")[0]
    return [(tuple(int(x) for x in m.group(1).split(";") if x.strip()), int(m.group(2)))
            for m in re.finditer(r"\(\[([0-9; ]*)\], (\d+)", body)]


def blocks(n, path=()):
    """(path, node) of every node, pre-order"""
    yield path, n
    for i, k in enumerate(n[5]):
        yield from blocks(k, path + (i,))


def replace_at(n, path, f):
    if not path:
        return f(n)
    kids = list(n[5])
    kids[path[0]] = replace_at(kids[path[0]], path[1:], f)
    return (n[0], n[1], n[2], n[3], n[4], tuple(kids) if isinstance(n[5], tuple) else kids)


def rename(n, name):
    return (n[0], name, n[2], n[3], n[4], n[5])


def mutants(node, kw, rnd):
    """up to three mutants (tag, node', kw', expected (path, code))"""
    dup_block, dup_params, res = [], [], []
    for path, n in blocks(node):
        if not path:
            continue
        if n[0] == 7:
            decl = [j for j, s in enumerate(n[5]) if s[0] in (4, 6)]
            for a in range(len(decl)):
                for b in range(a + 1, len(decl)):
                    if n[5][decl[a]][1] != n[5][decl[b]][1]:
                        dup_block.append((path, decl[a], decl[b]))
            for j, s in enumerate(n[5]):
                if s[0] == 6 and s[1] not in kw:
                    res.append((path, j))
        if n[0] == 4:
            ps = [j for j, s in enumerate(n[5]) if s[0] == 5]
            if len(ps) >= 2 and n[5][ps[0]][1] != n[5][ps[1]][1]:
                dup_params.append((path, ps[0], ps[1]))
    out = []

    def pick(cands):
        cands = sorted(cands, key=lambda c: -len(c[0]))[:max(1, len(cands) // 3)]      # among the deepest third
        return rnd.choice(cands)
    if dup_block:
        path, a, b = pick(dup_block)
        first = W.node_at(node, list(path))[5][a][1]
        out.append(("dup-block", replace_at(node, path + (b,), lambda s: rename(s, first)), kw, (path + (b,), 21)))
    if dup_params:
        path, a, b = pick(dup_params)
        first = W.node_at(node, list(path))[5][a][1]
        out.append(("dup-params", replace_at(node, path + (b,), lambda s: rename(s, first)), kw, (path, 21)))
    if res:
        path, j = pick(res)
        out.append(("reserved", node, kw + [W.node_at(node, list(path))[5][j][1]], (path + (j,), 22)))
    return out


def run(rep, items, seed, tier, per=6, nmut=24):
    t0 = time.time()
    good = [it for it in items if it.get("errs") is not None and "node" in it]
    rnd = random.Random(C.sub_seed(seed, "scopespec"))
    mut_items = set(id(it) for it in rnd.sample(good, min(len(good), nmut if tier == "quick" else 4 * nmut)))
    files, layout = [], []
    for k in range(0, len(good), per):
        chunk = good[k:k + per]
        lang_defs, body, evals, lay = {}, [], [], []
        for j, it in enumerate(chunk):
            L = it["L"]
            lang_defs[L.lang] = "Definition L_%s : lang := %s.\n" % (L.lang, W.lang_record(L))
            txt, ser, n = W.program_defs(L, it["program"], j)
            body.append(txt)
            evals.append("Eval vm_compute in (scan_checked kw%d p%d ++ scan_extra kw%d p%d).\n" % (j, j, j, j))
            lay.append(("scan", it, None))
            if id(it) in mut_items:
                rw = W.reserved(L.lang)
                kw = [i for s, i in ser.names.items() if s in rw]
                for m, (tag, mn, mkw, exp) in enumerate(mutants(n, kw, rnd)):
                    body.append("Definition pm%d_%d : node := %s.\nDefinition kwm%d_%d : list nat := %s.\n"
                                % (j, m, ir2coq.coq_node(mn), j, m, C.clist(mkw)))
                    call = W.check_call(L.lang, j).replace("STRICT", "false").replace("INFER", "false")
                    call = call.replace(" kw%d p%d" % (j, j), " kwm%d_%d pm%d_%d" % (j, m, j, m))
                    evals.append("Eval vm_compute in (map (fun e => (fst (fst (fst e)), snd (fst (fst e)))) (only_codes [21; 22] (%s))).\n" % call)
                    evals.append("Eval vm_compute in (scan_checked kwm%d_%d pm%d_%d).\n" % (j, m, j, m))
                    lay.append(("mut", it, (tag, exp)))
        files.append(("c05s_%d" % (k // per), HDR + "".join(lang_defs.values()) + "\n".join(body) + "\n" + "".join(evals)))
        layout.append(lay)
    C.clean_cases("c05s_")
    res = C.run_case_files(files, timeout=1800)
    nscan = nclean = nmutants = magree = mexp = extra_viol = 0
    mut_hist, unreached = {}, []
    clean = []
    for (name, _), lay in zip(files, layout):
        rc, out = res[name]
        if rc != 0:
            rep.violation("case-file", "case file %s did not evaluate: %s" % (name, out[-400:]), dict(broken=name, log=out[-3000:]), no_input=True)
            continue
        vals = C.parse_eval_outputs(out)
        vi = 0
        for what, it, info in lay:
            if what == "scan":
                serrs = parse_serrs(vals[vi])
                vi += 1
                nscan += 1
                chk = sorted((tuple(p_), c_) for p_, c_, _ in it["errs"] if c_ in (21, 22))
                sc = sorted(e for e in serrs if e[1] in (21, 22))
                extra = [e for e in serrs if e[1] >= 31]
                if chk != sc:
                    rep.violation("scan-disagreement",
                                  "%s seed %d: duplicate / reserved identifiers: reference checker reports %s, exhaustive scanner %s"
                                  % (it["lang"], it["seed"], chk[:5], sc[:5]),
                                  dict(lang=it["lang"], seed=it["seed"], combo=it["combo"], checker=chk, scanner=sc))
                elif extra:
                    extra_viol += 1
                    e0 = extra[0]
                    nd = W.node_at(it["node"], list(e0[0]))
                    nm = [k_ for k_, v_ in it["ser"].names.items() if nd and v_ == nd[1]]
                    os.makedirs(os.path.join(C.REPLAYS, "C05"), exist_ok=True)
                    binp = os.path.join(C.REPLAYS, "C05", "prog-%s-%d-%d.bin" % (it["lang"], it["combo"], it["seed"]))
                    open(binp, "wb").write(pickle.dumps(it["program"]))
                    rep.violation("identifier-rule", "%s (switch combination %d, seed %d): %s at node path %s%s"
                                  % (it["lang"], it["combo"], it["seed"], EXTRA.get(e0[1], e0[1]), list(e0[0]), " (%s)" % nm[0] if nm else ""),
                                  dict(lang=it["lang"], seed=it["seed"], combo=it["combo"], program_bin=binp, shape="identifier-rule",
                                       errors=[dict(path=list(e[0]), code=e[1], what=EXTRA.get(e[1], "")) for e in extra[:10]]))
                elif not serrs:
                    nclean += 1
                    clean.append(it)
            else:
                tag, exp = info
                chk = sorted(set(parse_serrs(vals[vi])))
                sc = sorted(set(parse_serrs(vals[vi + 1])))
                vi += 2
                nmutants += 1
                mut_hist[tag] = mut_hist.get(tag, 0) + 1
                if exp in sc:
                    mexp += 1
                else:
                    rep.violation("scan-mutant", "%s seed %d: the scanner misses the injected %s at %s" % (it["lang"], it["seed"], tag, list(exp[0])),
                                  dict(lang=it["lang"], seed=it["seed"], tag=tag, expected=[list(exp[0]), exp[1]], scanner=sc), no_input=True)
                if chk == sc:
                    magree += 1
                else:
                    unreached.append(dict(lang=it["lang"], seed=it["seed"], combo=it["combo"], mutant=tag, injected=[list(exp[0]), exp[1]],
                                          checker=[[list(p_), c_] for p_, c_ in chk], scanner=[[list(p_), c_] for p_, c_ in sc]))
    # kernel certificates  ScopesIntended kw p  for the clean programs
    cfiles = []
    for k in range(0, len(clean), per * 2):
        chunk = clean[k:k + per * 2]
        body = []
        for j, it in enumerate(chunk):
            txt, _, _ = W.program_defs(it["L"], it["program"], j)
            body.append(txt)
            body.append("Theorem p%d_scopes : ScopesIntended kw%d p%d.\nProof. apply scan_decides_ScopesIntended. vm_compute. reflexivity. Qed.\n" % (j, j, j))
        cfiles.append(("c05sc_%d" % (k // (per * 2)), HDR + "\n".join(body)))
    cres = C.run_case_files(cfiles, timeout=1800)
    ncert = 0
    for k, (name, _) in zip(range(0, len(clean), per * 2), cfiles):
        rc, out = cres[name]
        if rc == 0:
            ncert += len(clean[k:k + per * 2])
        else:
            rep.violation("certificate", "kernel did not accept the ScopesIntended certificates of %s: %s" % (name, out[-400:]),
                          dict(broken=name, log=out[-3000:]), no_input=True)
    C.clean_cases("c05s")
    rep.add(scope_scan=dict(
        wall_s=round(time.time() - t0, 1), programs_scanned=nscan, programs_clean=nclean, scopes_intended_certificates=ncert, intended_rule_violations=extra_viol,
        mutants=nmutants, mutant_histogram=mut_hist, mutants_injected_fault_found_by_scanner=mexp,
        mutants_checker_equals_scanner=magree, mutants_checker_differs=len(unreached), mutants_checker_differs_samples=unreached[:5],
        rule="scan_checked ++ scan_extra (IR/ScopeScan.v, proved equivalent to ScopesChecked / ScopesExtra of IR/CheckSpec.v) evaluated in the "
             "kernel on every generated program: its 21/22 errors must equal the reference checker's, errors >= 31 are violations of the "
             "identifier rule the reference checker does not examine; mutants inject one fault into a generated program (deepest third of the "
             "candidate positions) and compare the two verdicts position by position (a difference there is a coverage gap of the reference "
             "checker, recorded, not a defect of the generator)"))
