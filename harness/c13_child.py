"""Child process of C13's cross-process stream: what `--replay` does in a NEW interpreter (its own hash seed):
load a saved program, apply a mutation under a given random seed, print a digest of the result.

usage: c13_child.py <language> <file.bin> <random seed> <erase|overwrite|none>
prints: C13CHILD {"tree": sha256 of the serialised tree incl. the symbol table, "text": sha256 of the translation,
                  "transformed": bool, "error": ...}
"""
import hashlib
import json
import os
import sys


def main():
    lang, path, sd, what = sys.argv[1], sys.argv[2], int(sys.argv[3]), sys.argv[4]
    sys.path.insert(0, os.path.dirname(os.path.abspath(__file__)))
    import common as C
    C.setup_repo_import(0, ["hephaestus.py", "--iterations", "1", "--language", lang])
    import src.args  # noqa: F401
    from src import utils as U
    from src.transformations.type_erasure import TypeErasure
    from src.transformations.type_overwriting import TypeOverwriting
    from src.translators.kotlin import KotlinTranslator
    from src.translators.java import JavaTranslator
    from src.translators.groovy import GroovyTranslator
    from src.translators.scala import ScalaTranslator
    import tymodel as T
    import ir2coq
    import c13
    TR = {"kotlin": KotlinTranslator, "java": JavaTranslator, "groovy": GroovyTranslator, "scala": ScalaTranslator}
    out = {}
    try:
        p = U.load_program(path)
        if what == "contract":
            # Python's contract between == and hash, between the LOADED type objects and equal objects made in THIS process
            from src.ir import types as tp
            seen, bad = {}, []

            class Collect(ir2coq.Ser):
                def ty(self, t):
                    if t is not None:
                        seen[id(t)] = t
                    return super().ty(t)
            Collect(T.Lang(lang), p).prog()
            for t in list(seen.values()):
                try:
                    if isinstance(t, tp.WildCardType):
                        f = tp.WildCardType(t.bound, t.variance)
                    elif isinstance(t, tp.TypeParameter):
                        f = tp.TypeParameter(t.name, t.variance, t.bound)
                    elif isinstance(t, tp.ParameterizedType):
                        f = tp.ParameterizedType(t.t_constructor, t.type_args, getattr(t, "can_infer_type_args", False))
                    elif type(t) is tp.SimpleClassifier:
                        f = tp.SimpleClassifier(t.name, t.supertypes)
                    else:
                        continue
                    if f == t and hash(f) != hash(t):
                        bad.append("%s: a loaded %s equals a newly made one but hashes differently" % (t, type(t).__name__))
                    if f == t and (f in {t}) is False:
                        bad.append("%s: not found in a set holding an equal object" % (t,))
                except Exception:       # noqa: BLE001  (constructor signatures this helper does not know)
                    continue
            out["types"] = len(seen)
            out["bad"] = bad[:5]
            print("C13CHILD " + json.dumps(out))
            return
        if what != "none":
            U.random.r.seed(sd)
            tr = (TypeErasure if what == "erase" else TypeOverwriting)(p, lang, None, {"timeout": 600})
            tr.transform()
            p = tr.result()
            out["transformed"] = bool(tr.is_transformed)
            out["error_injected"] = str(getattr(tr, "error_injected", None))
        U.random.r.seed(20260923)
        txt = U.translate_program(TR[lang]("src.pkg", {}), p)
        out["text"] = hashlib.sha256(txt.encode()).hexdigest()
        ser = ir2coq.Ser(T.Lang(lang), p)
        out["tree"] = hashlib.sha256(repr(c13.with_ctx(ser, p)).encode()).hexdigest()
    except Exception as e:      # noqa: BLE001
        out["error"] = "%s: %s" % (type(e).__name__, str(e)[:200])
    print("C13CHILD " + json.dumps(out))


if __name__ == "__main__":
    main()
