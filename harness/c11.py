"""C11 -- translation is a pure function of the program.

What Coq carries (coq/IR/PrintKotlin.v, PrintProofs.v, Properties_C11.v): KotlinTranslator as
state-passing Gallina functions over an explicit translator object (ident, is_unit, is_lambda,
_cast_integers, _children_res, _nodes_stack, context | program) and the theorems that every
node visit pushes exactly one result and restores every other component (ident up to the
reset to 0 that visit_super_instantiation leaks), hence that a translation leaves the object
in its initial state (context excepted, which the next visit_program reassigns) and that the
text of a program after ANY history of earlier translations is the text from a fresh object.
Tie: every text the real KotlinTranslator produces in this run -- fresh object, same object
twice, one long-lived object across all programs in random order with package reassignment
(what hephaestus.gen_program does), after Java/Groovy/Scala translations of the same program
object -- is compared inside Coq, byte for byte, with print_program of the serialised program
(generated, erased, overwritten); one history is also replayed on the model with the state
threaded through.  The program is snapshot (pickle) before and after every translation.
Directed stream: random trees of the real ast classes (ir2print.Fuzz), half of them with
tu.is_sam replaced by a table oracle (the implementation's is_sam never holds).
Java, Groovy and Scala have no model: for them the histories are compared with the text of a
fresh translator only -- supporting EXPLORATION, labelled as such.
"""
import json
import os
import pickle
import random
import threading
import time

import common as C
import progs
import ir2print as P

EXTRA_MODELS = [("scala", "printcorr_scala"), ("java", "printcorr_java"), ("groovy", "printcorr_groovy")]
OPTS = {"cast_numbers": False}


def _translators():
    from src.translators.kotlin import KotlinTranslator
    from src.translators.java import JavaTranslator
    from src.translators.groovy import GroovyTranslator
    from src.translators.scala import ScalaTranslator
    return {"kotlin": KotlinTranslator, "java": JavaTranslator, "groovy": GroovyTranslator, "scala": ScalaTranslator}


class Obs:
    """everything observed for one program variant"""

    def __init__(self, vid, lang, seed, stage, blob):
        self.vid, self.lang, self.seed, self.stage, self.blob = vid, lang, seed, stage, blob
        self.texts = {}          # pkg -> {text: [history labels]}
        self.obj = None
        self.term = None

    def see(self, pkg, text, label):
        self.texts.setdefault(pkg, {}).setdefault(text, []).append(label)

    def program(self):
        if self.obj is None:
            self.obj = pickle.loads(self.blob)
        return self.obj


def translate_checked(utils, tr, p, mutated, label):
    """translate_program with a structural snapshot of the program before and after"""
    b0 = pickle.dumps(p)
    txt = utils.translate_program(tr, p)
    b1 = pickle.dumps(p)
    if b0 != b1:
        # structurally different, or only the object graph (sharing / identity)?
        try:
            same = P.PSer(pickle.loads(b0)).prog() == P.PSer(pickle.loads(b1)).prog()
        except Exception:       # noqa: BLE001
            same = None
        mutated.append(label + (same, b0))
    return txt


def stages_of(lang, sd, TE, TO, utils, TR, mutated, vid0, pkgs=("src.a", "src.b"), gen_timeout=10, build=None):
    """generate -> erase -> overwrite on ONE program object with ONE translator object, the
    package reassigned before the incorrect program: what hephaestus.gen_program does"""
    if build is not None:
        utils.random.r.seed(sd)
        p = build(lang, sd)
    else:
        p = P.with_timeout(gen_timeout, progs.generate, lang, sd)
    tr = TR[lang](pkgs[0], OPTS)
    out = []
    for stage in ("generated", "erased", "overwritten"):
        if stage == "erased":
            te = TE(p, lang, None, {"timeout": 600})
            te.transform()
            p = te.result()
        if stage == "overwritten":
            tr.package = pkgs[1]
            to = TO(p, lang, None, {"timeout": 600})
            to.transform()
            p = to.result()
        o = Obs(vid0 + len(out), lang, sd, stage, pickle.dumps(p))
        lab = "driver-object/%s" % stage
        o.see(tr.package, translate_checked(utils, tr, p, mutated, (o.vid, lab)), lab)
        if stage == "overwritten":
            o.see(tr.package, translate_checked(utils, tr, p, mutated, (o.vid, lab + "/again")), lab + "/again")
        out.append(o)
    return out


def case_files(prefix, variants, per=3, extra_first=""):
    """one Definition per variant, one case per distinct (package, text) observed; extra_first
    is appended to the first file (it may refer to the variants defined there)"""
    files, index = [], {}
    for k in range(0, len(variants), per):
        chunk = variants[k:k + per]
        name = "%s_%d" % (prefix, k // per)
        defs, cases, idx = [], [], []
        for o in chunk:
            defs.append("Definition v%d : pprogram := %s.\n" % (o.vid, o.term))
            for pkg, tx in o.texts.items():
                for t in tx:
                    cases.append("(%s, v%d, %s)" % (P.cstr(pkg or ""), o.vid, P.cstr(t)))
                    idx.append((o, pkg, t))
        text = (P.HEADER + "".join(defs) + "Definition cases : list (string * pprogram * string) := [\n" +
                ";\n".join(cases) + "\n].\nEval vm_compute in (mismatches 0 cases).\n")
        if k == 0:
            text += extra_first
        files.append((name, text))
        index[name] = idx
    return files, index


directed_inplace = [0]


def run(tier, seed, replay=None):
    rep = C.Report("C11", tier, seed, "proof")
    C.setup_repo_import(seed, ["hephaestus.py", "--iterations", "1", "--language", "kotlin"])
    import src.args  # noqa: F401
    from src import utils
    from src.transformations.type_erasure import TypeErasure
    from src.transformations.type_overwriting import TypeOverwriting
    TR = _translators()
    rows = progs.config_table()
    progs.set_cfg(rows[0])
    proof_ok = C.proof_part(rep, "IR/Properties_C11.v", ["IR/PrintKotlin.vo", "IR/PrintProofs.vo"], ["IR"])
    rng = random.Random(C.sub_seed(seed, "c11"))
    quick = tier == "quick"
    nk = int(os.environ.get("VERIF_C11_N", "5" if quick else "150"))
    nother = 2 if quick else 40
    nfuzz = 40 if quick else 2000
    mutated, crashes, gen_timeouts = [], [], []
    t0 = time.time()

    # ------------------------------------------------------------------ Kotlin: programs
    variants = []
    if replay:
        d = json.load(open(replay))["detail"]
        blob = open(d["program_bin"], "rb").read()
        variants.append(Obs(0, "kotlin", d.get("seed", -1), d.get("stage", "replay"), blob))
    else:
        import glob as globmod
        for f in sorted(globmod.glob(os.path.join(C.CORPUS, "C11", "*.pkl"))):
            # programs on which a defect was observed once (kept so that every run re-derives it)
            variants.append(Obs(len(variants), "kotlin", os.path.basename(f)[:-4], "corpus", open(f, "rb").read()))
        for s in range(nk):
            sd = C.sub_seed(seed, "c11prog", "kotlin", s) % (2 ** 31)
            try:
                variants.extend(stages_of("kotlin", sd, TypeErasure, TypeOverwriting, utils, TR, mutated, len(variants)))
            except P.GenTimeout:
                gen_timeouts.append(("kotlin", sd))
            except Exception as e:      # noqa: BLE001
                crashes.append(("kotlin", sd, "%s: %s" % (type(e).__name__, str(e)[:120])))
        # directed small programs (harness/handprogs.py) in which type overwriting mostly rewrites, IN PLACE, an explicit type
        # argument of a constructor call or a declared type that the same translator object has already printed
        import handprogs
        for s in range(nk if tier == "quick" else 40):
            sd = C.sub_seed(seed, "c11hand", "kotlin", s) % (2 ** 31)
            try:
                variants.extend(stages_of("kotlin", sd, TypeErasure, TypeOverwriting, utils, TR, mutated, len(variants),
                                          build=handprogs.build))
                directed_inplace[0] += 1
            except Exception as e:      # noqa: BLE001
                crashes.append(("kotlin", sd, "directed %s: %s" % (type(e).__name__, str(e)[:120])))
    t_gen = time.time() - t0

    # ------------------------------------------------------------------ Kotlin: histories on the implementation
    ntrans = 0
    K = TR["kotlin"]
    ser_changed = []
    for o in variants:
        p = o.program()
        try:
            o.term = P.PSer(p).prog()
        except P.SerError as e:
            crashes.append(("kotlin", o.seed, "serialiser: %s" % e))
            continue
        tr = K("src.pkg", OPTS)
        o.see("src.pkg", translate_checked(utils, tr, p, mutated, (o.vid, "fresh")), "fresh")
        o.see("src.pkg", translate_checked(utils, tr, p, mutated, (o.vid, "same-object-twice")), "same-object-twice")
        ntrans += 2
    variants = [o for o in variants if o.term is not None]
    long_lived = K("src.pkg", OPTS)
    other_fail = {}
    seq = [rng.choice(variants) for _ in range(3 * len(variants))] if variants else []
    for step, o in enumerate(seq):
        p = o.program()
        if rng.random() < 0.3:
            long_lived.package = rng.choice(["src.pkg", "src.other", None])
        lab = "long-lived-object/step%d" % step
        if rng.random() < 0.35:
            for ol in ("java", "groovy", "scala"):
                b0 = pickle.dumps(p)
                try:
                    utils.translate_program(TR[ol]("src.pkg", OPTS), p)
                except Exception as e:      # noqa: BLE001  (a Kotlin program given to another translator)
                    other_fail[ol] = other_fail.get(ol, 0) + 1
                b1 = pickle.dumps(p)
                if b1 != b0:
                    try:
                        same = P.PSer(pickle.loads(b0)).prog() == P.PSer(pickle.loads(b1)).prog()
                    except Exception:       # noqa: BLE001
                        same = None
                    mutated.append((o.vid, "translated to %s" % ol, same, b0))
            lab += "/after-java-groovy-scala"
        o.see(long_lived.package, translate_checked(utils, long_lived, p, mutated, (o.vid, lab)), lab)
        ntrans += 1
    for o in variants:
        # the serialisation of the program after all histories is the one before them
        if P.PSer(o.program()).prog() != o.term:
            ser_changed.append(o.vid)

    # one history replayed on the MODEL with the translator state threaded through
    hist_file = None
    if variants:
        hv = variants[:3]        # defined in the first case file
        hseq = [hv[i % len(hv)] for i in (0, 0, 1, 2, 0, 1, 2, 2)]
        hpk = ["src.pkg", "src.pkg", "src.a", "src.a", "", "src.b", "src.b", "src.pkg"]
        trh = K("src.pkg", OPTS)
        hexp = []
        for o, pk in zip(hseq, hpk):
            trh.package = pk or None
            hexp.append(translate_checked(utils, trh, o.program(), mutated, (o.vid, "model-history")))
            o.see(pk or None, hexp[-1], "model-history")
        hist_file = "Eval vm_compute in (history_mismatches %s %s).\n" % (
            C.clist(["(%s, v%d)" % (P.cstr(pk), o.vid) for o, pk in zip(hseq, hpk)]), C.clist([P.cstr(t) for t in hexp]))

    # ------------------------------------------------------------------ directed stream (random trees)
    fuzz = []
    fuzz_crash = {}
    for s in range(0 if replay else nfuzz):
        frng = random.Random(C.sub_seed(seed, "c11fuzz", s))
        fz = P.Fuzz(frng)
        p = fz.program()
        sam = [n for n in fz.class_names if frng.random() < 0.5] if s % 2 else []
        with P.SamOracle(sam):
            o = Obs(100000 + s, "kotlin", s, "directed", b"")
            o.obj = p
            try:
                tr = K("src.pkg", OPTS)
                t1 = utils.translate_program(tr, p)
            except Exception as e:      # noqa: BLE001  (malformed tree: the implementation raises)
                k = type(e).__name__
                fuzz_crash[k] = fuzz_crash.get(k, 0) + 1
                continue
            o.term = P.PSer(p).prog()
            o.see("src.pkg", t1, "fresh")
            o.see("src.pkg", utils.translate_program(tr, p), "same-object-twice")
            o.see("src.pkg", utils.translate_program(long_lived, p) if long_lived.package == "src.pkg" else t1,
                  "long-lived-object")
            o.sam = sam
            fuzz.append(o)

    # ------------------------------------------------------------------ Coq (in the background)
    C.clean_cases("c11")
    files, index = case_files("c11k", variants, per=3, extra_first=hist_file or "")
    ffiles, findex = case_files("c11f", fuzz, per=20)
    index.update(findex)
    allfiles = files + ffiles
    coq_res = {}

    coq_t = []

    def coq():
        tc = time.time()
        coq_res.update(C.run_case_files(allfiles, timeout=1800))
        coq_t.append(time.time() - tc)

    th = threading.Thread(target=coq)
    t1 = time.time()
    th.start()

    # ------------------------------------------------------------------ the other three translators: exploration
    expl = {"programs": 0, "translations": 0, "differences": 0}
    expl_diff = []
    for lang in ("java", "groovy", "scala"):
        if replay:
            break
        shared = TR[lang]("src.pkg", OPTS)
        for s in range(nother):
            sd = C.sub_seed(seed, "c11prog", lang, s) % (2 ** 31)
            try:
                vs = stages_of(lang, sd, TypeErasure, TypeOverwriting, utils, TR, mutated, 200000 + 10 * expl["programs"],
                               pkgs=("src.pkg", "src.pkg"))
            except P.GenTimeout:
                gen_timeouts.append((lang, sd))
                continue
            except Exception as e:      # noqa: BLE001
                crashes.append((lang, sd, "%s: %s" % (type(e).__name__, str(e)[:120])))
                continue
            expl["programs"] += 1
            for o in vs:
                p = o.program()
                try:
                    o.see("src.pkg", translate_checked(utils, TR[lang]("src.pkg", OPTS), p, mutated, (o.vid, "fresh")), "fresh")
                    o.see("src.pkg", translate_checked(utils, shared, p, mutated, (o.vid, "long-lived-object")), "long-lived-object")
                    o.see("src.pkg", translate_checked(utils, shared, p, mutated, (o.vid, "long-lived-object/again")),
                          "long-lived-object/again")
                    try:
                        utils.translate_program(K("src.pkg", OPTS), p)
                    except Exception:       # noqa: BLE001
                        other_fail["kotlin<-" + lang] = other_fail.get("kotlin<-" + lang, 0) + 1
                    o.see("src.pkg", translate_checked(utils, shared, p, mutated, (o.vid, "after-kotlin")), "after-kotlin")
                except Exception as e:      # noqa: BLE001
                    crashes.append((lang, sd, "%s: %s" % (type(e).__name__, str(e)[:120])))
                    continue
                expl["translations"] += 5
                if len(o.texts.get("src.pkg", {})) > 1:
                    expl["differences"] += 1
                    expl_diff.append(o)
    t_expl = time.time() - t1
    th.join()
    t_coq = coq_t[0] if coq_t else 0.0

    # ------------------------------------------------------------------ verdicts
    os.makedirs(os.path.join(C.REPLAYS, "C11"), exist_ok=True)

    def save(o):
        path = os.path.join(C.REPLAYS, "C11", "prog-%s-%s-%s.bin" % (o.lang, o.seed, o.stage))
        with open(path, "wb") as f:
            f.write(o.blob or pickle.dumps(o.obj))
        return path

    hist_viol = 0
    for o in variants + fuzz:
        for pkg, tx in o.texts.items():
            if len(tx) > 1:
                hist_viol += 1
                texts = list(tx)
                d = P.first_diff(texts[0], texts[1])
                rep.violation("history", "kotlin %s seed %s (%s): the text depends on the history of the translator object: %s vs %s, "
                              "first difference at offset %d: %r / %r" % (o.stage, o.seed, pkg, tx[texts[0]][:2], tx[texts[1]][:2], d,
                                                                       texts[0][max(0, d - 30):d + 30], texts[1][max(0, d - 30):d + 30]),
                              dict(lang="kotlin", seed=o.seed, stage=o.stage, program_bin=save(o), histories={t[:40]: l for t, l in tx.items()}))
    for o in expl_diff:
        tx = o.texts["src.pkg"]
        texts = list(tx)
        d = P.first_diff(texts[0], texts[1])
        rep.violation("history", "%s %s seed %s [exploration, no model]: the text depends on the history of the translator object: "
                      "%s vs %s, first difference at offset %d: %r / %r" % (o.lang, o.stage, o.seed, tx[texts[0]][:2], tx[texts[1]][:2], d,
                                                                           texts[0][max(0, d - 30):d + 30], texts[1][max(0, d - 30):d + 30]),
                      dict(lang=o.lang, seed=o.seed, stage=o.stage, program_bin=save(o)))
    byvid = {o.vid: o for o in variants + fuzz}
    nmut = {}
    for vid, lab, same, b0 in mutated:
        kind = "mutation-identity-only" if same else "mutation-structural"
        nmut[kind] = nmut.get(kind, 0) + 1
        if nmut[kind] > 3:
            continue
        path = os.path.join(C.REPLAYS, "C11", "prog-before-%s-%s.bin" % (vid, abs(hash(lab)) % 100000))
        with open(path, "wb") as f:
            f.write(b0)
        rep.violation(kind, "translating modified the program object (pickle snapshot before/after differs; the serialised "
                      "structure is %s): variant %s, %s" % ("the same: an object was replaced by an equal copy" if same else
                                                            "DIFFERENT", vid, lab),
                      dict(variant=vid, history=lab, program_bin=path, lang=(byvid[vid].lang if vid in byvid else None), shape=kind,
                           where="tu.is_sam -> ClassDeclaration.get_abstract_functions (ast.py:754/765) reassigns .bound of a "
                                 "type parameter of the program" if same else None))
    for vid in ser_changed[:5]:
        rep.violation("mutation", "the serialised program differs after the histories: variant %s" % vid,
                      dict(variant=vid, program_bin=save(byvid[vid])))
    compared, mism = 0, 0
    for name, _ in files + ffiles:
        rc, out = coq_res[name]
        if rc != 0:
            rep.violation("case-file", "case file %s did not evaluate: %s" % (name, out[-400:]), dict(broken=name, log=out[-3000:]),
                          no_input=True)
            continue
        bad = C.parse_nat_list(C.parse_eval_outputs(out)[0])
        compared += len(index[name])
        for i in bad:
            o, pkg, t = index[name][i]
            mism += 1
            rep.violation("correspondence", "kotlin %s seed %s (%s): the text of the real KotlinTranslator (%s) is not the model's "
                          "print_program" % (o.stage, o.seed, pkg, o.texts[pkg][t][:3]),
                          dict(lang="kotlin", seed=o.seed, stage=o.stage, program_bin=save(o), histories=o.texts[pkg][t][:5],
                               broken="correspondence IR.PrintKotlin.print_program vs KotlinTranslator", sam=getattr(o, "sam", None)),
                          no_input=len(o.texts[pkg]) == 1)
    hist_ok = None
    if hist_file:
        rc, out = coq_res[files[0][0]]
        if rc == 0:
            val = C.parse_eval_outputs(out)[-1].split(" : ")[0].strip()
            hist_ok = val in ("([], true)", "(nil, true)")
            if not hist_ok:
                rep.violation("correspondence", "the history replayed on the model (state threaded through 8 translations) gives %s, "
                              "expected ([], true)" % val, dict(broken="history_mismatches", value=val), no_input=True)
    C.clean_cases("c11")
    # further modelled translators (own model, theorem files and correspondence each)
    extra_cov = {}
    for lang_, modname in EXTRA_MODELS:
        mod = __import__(modname)
        part = mod.run_part(rep, tier, seed, "C11")
        proof_ok = C.proof_part_extra(rep, part["proof"]) and proof_ok
        extra_cov[lang_] = {k: v for k, v in part.items() if k not in ("proof", "obligations", "discharged", "print_assumptions")}
    if not proof_ok and not rep.violations:
        rep.violation("proof", rep.proof_broken, dict(broken=rep.proof_broken), no_input=True)
    rep.add(further_models=extra_cov)
    rep.add(programs=len(variants), directed_trees=len(fuzz), directed_trees_rejected_by_impl=fuzz_crash,
            evaluations=compared, traces_validated_against_impl=compared, model_impl_mismatches=mism,
            distinct_nontrivial=len({t for o in variants + fuzz for tx in o.texts.values() for t in tx}),
            kotlin_translations=ntrans + 4 * len(variants) // 3, history_dependent_variants=hist_viol,
            model_history_replayed=hist_ok, program_snapshots_changed=len(mutated) + len(ser_changed), snapshot_change_kinds=nmut,
            other_translator_failures_on_foreign_programs=other_fail,
            exploration_other_languages=dict(expl, label="EXPLORATION: Java/Groovy/Scala have no model; long-lived object vs fresh object only"),
            generation_abandoned_after_10s=[list(g) for g in gen_timeouts], exceptions=len(crashes), exception_samples=[list(c) for c in crashes[:5]],
            generation_s=round(t_gen, 1), coq_s=round(t_coq, 1), exploration_s=round(t_expl, 1),
            rule="Kotlin programs (generated / erased / overwritten, one object through the stages as hephaestus.gen_program does) and "
                 "random trees; per variant: fresh translator, same object 3x, one long-lived object over a random sequence of all "
                 "variants with package reassignment and Java/Groovy/Scala translations of the same program object in between; every "
                 "distinct text is compared with print_program inside Coq; pickle snapshot around every translation",
            samples=[dict(seed=o.seed, stage=o.stage, text_bytes=len(next(iter(o.texts["src.pkg"])))) for o in variants[:4] if "src.pkg" in o.texts],
            trusted_base=C.TRUSTED_BASE_COMMON + [
                "harness/ir2print.py serialiser (fail-closed); tu.is_sam is evaluated by the real code at serialisation time and "
                "enters the model as a table",
                "byte strings: the model is exact where s[k:] / lower() act on ASCII (all texts of this run are compared as UTF-8)"])
    rep.assumptions = ["exceptions raised in the middle of a translation (malformed trees) are not modelled: KotlinTranslator does not "
                       "reset its accumulators, an aborted translation leaves the object dirty; hephaestus creates one translator per "
                       "iteration, so this cannot leak across iterations"]
    return rep.finish()
