"""C14 -- compiler diagnostics are attributed to the right programs.

Model regenerated from source: harness/re2coq.py parses ERROR_REGEX / CRASH_REGEX /
STACKOVERFLOW_REGEX of the four compiler classes of /repo's working tree with CPython's own
re._parser and emits Generated/Regexes.v; coq/Diag/Regex.v is a backtracking matcher with
Python's priority semantics; coq/Diag/Analyze.v transliterates analyze_compiler_output.
Theorems (coq/Diag/Properties_C14.v) are re-checked against the regenerated regexes.
Ties run on every check:
  (i)  the translator (fail-closed);
  (ii) engine validation: Python re.search / finditer / sub vs the Coq engine on random
       patterns of the supported fragment and random strings;
  (iii) end to end: analyze_compiler_output of the real compiler classes vs the model on
       synthesised batch outputs with known ground truth (which also judges the
       implementation's answer against the property statement).
"""
import glob as globmod
import json
import os
import random
import re
import string

import common as C
import re2coq

ALPH = "ab:/ .-0\n_E"


# ------------------------------------------------------------------ (ii) random patterns

def rnd_atom(rng, depth):
    r = rng.random()
    if r < 0.35:
        c = rng.choice("ab:/ .-0_E")
        return re.escape(c)
    if r < 0.45:
        return "."
    if r < 0.55:
        return rng.choice([r"\d", r"\s", r"\S", r"\w", "[a-b]", "[^-]", "[ab0-9/_]", r"[\s\S]", "[^a]", r"\n"])
    if r < 0.75 and depth > 0:
        return "(" + rnd_seq(rng, depth - 1) + ")"
    if r < 0.80 and depth > 0:
        return "(?:" + rnd_seq(rng, depth - 1) + ")"
    if r < 0.86 and depth > 0:
        return "(?=" + rnd_seq(rng, depth - 1) + ")"
    return re.escape(rng.choice("ab:/ "))


def rnd_seq(rng, depth):
    n = rng.randint(1, 4)
    out = []
    for _ in range(n):
        a = rnd_atom(rng, depth)
        r = rng.random()
        if a.startswith("(?="):
            out.append(a)
            continue
        if r < 0.18:
            a += "*"
        elif r < 0.32:
            a += "+"
        elif r < 0.38:
            a += "?"
        elif r < 0.44:
            a += "{%d,%d}" % (rng.randint(0, 1), rng.randint(1, 3))
        elif r < 0.48:
            a += "{2,}"
        if a[-1] in "*+?}" and rng.random() < 0.3:
            a += "?"
        out.append(a)
    return "".join(out)


def star_height(pat):
    """nesting depth of unbounded repetitions (CPython's backtracking matcher is exponential on height >= 2)"""
    import re._parser as sp                     # noqa: E402
    import re._constants as sc

    def h(items):
        best = 0
        for op, av in items:
            if op in (sc.MAX_REPEAT, sc.MIN_REPEAT):
                inner = h(av[2])
                best = max(best, inner + (1 if av[1] == sc.MAXREPEAT else 0))
            elif op == sc.SUBPATTERN:
                best = max(best, h(av[3]))
            elif op == sc.BRANCH:
                best = max([best] + [h(b) for b in av[1]])
            elif op in (sc.ASSERT, sc.ASSERT_NOT):
                best = max(best, h(av[1]))
        return best
    return h(sp.parse(pat))


def rnd_text(rng):
    n = rng.randint(0, 40)
    return "".join(rng.choice(ALPH) for _ in range(n))


def py_spans(pat, text):
    r = re.compile(pat)
    ng = r.groups
    m = r.search(text)
    s = None if m is None else (m.start(), m.end(), [m.span(g) for g in range(1, ng + 1)])
    allm = [(m.start(), m.end(), [m.span(g) for g in range(1, ng + 1)]) for m in r.finditer(text)]
    return s, allm, r.sub("", text), ng


# ------------------------------------------------------------------ (iii) synthetic compiler outputs

WORDS = ["incompatible types", "cannot find symbol", "type mismatch", "unresolved reference", "Found Required",
         "bad operand", "is not abstract", "error in expression", "warning deprecated", "note see"]


def rnd_path(rng, ext, k):
    tmp = "/tmp/tmp" + "".join(rng.choice(string.ascii_lowercase + string.digits + "_") for _ in range(8))
    pkg = "".join(rng.choice(string.ascii_lowercase) for _ in range(rng.randint(3, 9)))
    name = {"java": "Main", "kotlin": "program", "groovy": "Main", "scala": "program"}[ext[0]]
    return "%s/src/%s%d/%s.%s" % (tmp, pkg, k, name, ext[1])


def synth(rng, lang, heavy_words=None):
    """Returns (output text, ground truth [(file, nerrors)], crash expected?, messages per file)."""
    ext = {"java": ("java", "java"), "kotlin": ("kotlin", "kt"), "groovy": ("groovy", "groovy"),
           "scala": ("scala", "scala")}[lang]
    heavy = heavy_words is not None     # many diagnostics of few kinds: a filter pattern then matches 9 times and more
    nfiles = rng.randint(5, 12) if heavy else rng.randint(1, 8)
    files = [rnd_path(rng, ext, k) for k in range(nfiles)]
    truth = {}
    blocks = []
    for f in files:
        nerr = rng.choice([1, 2, 3, 4]) if heavy else rng.choice([0, 0, 1, 1, 2, 3])
        for _ in range(nerr):
            msg = rng.choice(heavy_words if heavy else WORDS) + " " + rng.choice(["x", "String vs Int", "T1", "A<B>"])
            if rng.random() < 0.1:
                # compilers print fully qualified names in diagnostics
                msg += {"java": ": java.lang.String cannot be converted to int", "kotlin": " of org.jetbrains.annotations.NotNull",
                        "groovy": " java.lang.Object", "scala": " java.lang.String"}[lang]
            line, col = rng.randint(1, 300), rng.randint(1, 80)
            if lang == "java":
                blocks.append(("err", f, "%s:%d: error: %s\n        int x = y;\n            ^\n" % (f, line, msg),
                               "%d: error: %s" % (line, msg)))
            elif lang == "kotlin":
                blocks.append(("err", f, "%s:%d:%d: error: %s\n    val x = y\n        ^\n" % (f, line, col, msg), msg))
            elif lang == "groovy":
                body = " %d: [Static type checking] %s\n @ line %d, column %d.\n       int x = y\n       ^\n" % (line, msg, line, col)
                blocks.append(("err", f, "%s:%s\n" % (f, body), body.rstrip("\n")))
            else:
                body = "%d |  val x: Int = y\n  |               ^\n  |               %s\n" % (line, msg.replace("-", " "))
                blocks.append(("err", f, "-- [E007] Type Mismatch Error: %s:%d:%d %s\n%s" % (f, line, col, "-" * rng.randint(3, 30), body), body))
            truth.setdefault(f, []).append(blocks[-1][3])
        if rng.random() < 0.4:
            # warnings / notes about this file: must not add the file
            if lang == "java":
                blocks.append(("warn", f, "%s:%d: warning: [unchecked] unchecked cast\n        foo(x);\n           ^\n" % (f, rng.randint(1, 99)), None))
            elif lang == "kotlin":
                blocks.append(("warn", f, "%s:%d:%d: warning: variable x is never used\n" % (f, rng.randint(1, 99), rng.randint(1, 50)), None))
            elif lang == "groovy":
                blocks.append(("warn", f, "Note: %s uses unchecked operations.\n" % os.path.basename(f), None))
            else:
                blocks.append(("warn", f, "-- Warning: %s:%d:%d %s\n%d |  x\n  |  unused\n" % (f, rng.randint(1, 9), rng.randint(1, 9), "-" * 10, 3), None))
    rng.shuffle(blocks)
    parts = []
    if lang == "groovy" and any(b[0] == "err" for b in blocks):
        parts.append("org.codehaus.groovy.control.MultipleCompilationErrorsException: startup failed:\n")
    for b in blocks:
        parts.append(b[2])
        if lang == "groovy" and b[0] == "err":
            parts.append("\n")
    nerrs = sum(len(v) for v in truth.values())
    if lang == "java":
        parts.append("Note: Some input files use unchecked or unsafe operations.\n")
        if nerrs:
            parts.append("%d error%s\n" % (nerrs, "s" if nerrs > 1 else ""))
    elif lang == "groovy":
        if nerrs:
            parts.append("%d error%s\n\n" % (nerrs, "s" if nerrs > 1 else ""))
    elif lang == "scala":
        if nerrs:
            parts.append("%d error%s found\n" % (nerrs, "s" if nerrs > 1 else ""))
    text = "".join(parts)
    # message order per file follows the shuffled block order
    order = {}
    for b in blocks:
        if b[0] == "err":
            order.setdefault(b[1], []).append(b[3])
    crash = False
    r = rng.random()
    if r < 0.08:
        crash = True
        trace = {"java": "An exception has occurred in the compiler (17). \njava.lang.AssertionError: boom\n\tat com.sun.tools.javac.Main.x(Main.java:1)\n",
                 "kotlin": "exception: org.jetbrains.kotlin.backend.common.BackendException: Backend Internal error\n\tat org.jetbrains.kotlin.X.y(X.kt:3)\n",
                 "groovy": "java.lang.NullPointerException\n\tat org.codehaus.groovy.classgen.Verifier.visit(Verifier.java:10)\n",
                 "scala": "Exception in thread main java.lang.AssertionError\n\tat dotty.tools.dotc.Main.process(Main.scala:1)\n"}[lang]
        text = text + trace if rng.random() < 0.5 else trace + text
    return text, order, crash



# ------------------------------------------------------------------ (iv) instances of the output grammars
# (coq/Diag/GrammarScala.v, GrammarGroovy.v): generated here as structures, rendered HERE (independently of
# the Coq rendering), analysed by the real code; the kernel then evaluates the hypotheses of the attribution
# theorems on the structure and compares the theorems' right-hand side with the real result.

S_KINDS = ["[E007] Type Mismatch ", "[E008] Not Found ", "", "[E172] Type ", "[E050] Type ", "Syntax ",
           "[E134] Type ", "Error: nested ", "[E006] Not Found "]
S_BLOCK_PLAIN = ["%(l)d |  val x: Int = y", "  |               ^", "  |               Found:    (y : String)",
                 "  |               Required: Int", "  |  Not found: foo", "", "  |", "%(l)d |  foo(1, 2)",
                 "  |  value Error: bar is not a member of Foo", "  |  too many arguments for method foo: (x: Int): Int"]
S_BLOCK_DASH = ["%(l)d |  val x: String = -1", "  |                  Found:    (-1 : Int)",
                "  | longer explanation available when compiling with `-explain`", "  |  Required: Int -> String",
                "%(l)d |  val s = a -- b", "  |  a pre-existing definition"]
S_AFTER = ["-- Warning: %(f)s.scala:%(l)d:%(c)d -----------", "-- [E129] Potential Issue Warning: %(f)s.scala:%(l)d:%(c)d ---",
           "there were 2 feature warnings; re-run with -feature for details", "1 warning found", "-explain", "--"]


def rnd_stem(rng, name, k):
    tmp = "/tmp/tmp" + "".join(rng.choice(string.ascii_lowercase + string.digits + "_") for _ in range(8))
    pkg = "".join(rng.choice(string.ascii_letters + string.digits + "_") for _ in range(rng.randint(1, 9)))
    return "%s/src/%s%d/%s" % (tmp, pkg, k, name)


def scala_instance(rng):
    """Returns (items, text, truth): items = ("H", kind, stem, ln, col, nd) | ("O", txt)."""
    stems = [rnd_stem(rng, "program", k) for k in range(rng.randint(1, 5))]
    items = []
    nerr = rng.choice([0, 1, 1, 2, 3, 5])
    if rng.random() < 0.3:
        items.append(("O", rng.choice(S_AFTER + ["", "compiling 3 files"]) % dict(f=stems[0], l=1, c=1)))
    for _ in range(nerr):
        f = rng.choice(stems)
        l, c = rng.randint(1, 400), rng.randint(1, 120)
        items.append(("H", rng.choice(S_KINDS), f, str(l), str(c), rng.randint(1, 40)))
        pool = S_BLOCK_PLAIN + (S_BLOCK_DASH if rng.random() < 0.5 else [])
        for i in range(rng.randint(1, 6)):
            items.append(("O", rng.choice(pool) % dict(l=l)))
        if rng.random() < 0.3:
            for i in range(rng.randint(1, 3)):
                items.append(("O", rng.choice(S_AFTER + S_BLOCK_PLAIN) % dict(f=rng.choice(stems), l=l, c=c)))
    if nerr and rng.random() < 0.8:
        items.append(("O", "%d error%s found" % (nerr, "s" if nerr > 1 else "")))
    text = "".join(("-- %sError: %s.scala:%s:%s %s\n" % (it[1], it[2], it[3], it[4], "-" * it[5])) if it[0] == "H"
                   else it[1] + "\n" for it in items)
    truth = {}
    for i, it in enumerate(items):
        if it[0] == "H":
            block = []
            for jt in items[i + 1:]:
                if jt[0] == "H":
                    break
                block.append(jt[1] + "\n")
            truth.setdefault(it[2] + ".scala", []).append("".join(block))
    return items, text, truth


G_BODIES = [" %(l)d: [Static type checking] - Cannot assign value of type java.lang.String to variable of type int\n @ line %(l)d, column %(c)d.\n           int x = y\n               ^",
            " %(l)d: [Static type checking] - Cannot find matching method Main#foo(int). Please check if the declared type is correct and if the method exists.\n @ line %(l)d, column %(c)d.\n   foo(1)\n   ^",
            " %(l)d: unexpected token: } @ line %(l)d, column %(c)d.\n   }\n   ^",
            " %(l)d: The return type of A foo() in Main is incompatible with B in Base\n. At [%(l)d:%(c)d]  @ line %(l)d, column %(c)d.\n     A foo() { x - 1 }\n     ^",
            " %(l)d: [Static type checking] - Incompatible generic argument types. Cannot assign Foo <Bar> to: Foo <Baz>\n @ line %(l)d, column %(c)d.\n   Foo<Baz> z = new Foo<Bar>() // see Other.groovy: too\n   ^",
            ""]
G_OTHER = ["", "Note: Main uses unchecked or unsafe operations.", "warning: something deprecated", "  ", "General error during class generation"]


def groovy_instance(rng):
    """Returns (items, text, truth): items = ("E", stem, body) | ("O", txt)."""
    stems = [rnd_stem(rng, "Main", k) for k in range(rng.randint(1, 5))]
    items = []
    nerr = rng.choice([0, 1, 1, 2, 3, 5])
    so = rng.random() < (0.5 if nerr == 0 else 0.15)
    if nerr:
        items.append(("O", "org.codehaus.groovy.control.MultipleCompilationErrorsException: startup failed:"))
    elif so:
        items.append(("O", 'Exception in thread "main" java.lang.StackOverflowError'))
        items.append(("O", "\tat java.base/java.util.HashMap.hash(HashMap.java:338)"))
    for _ in range(nerr):
        if rng.random() < 0.2:
            items.append(("O", rng.choice(G_OTHER)))
        items.append(("E", rng.choice(stems), rng.choice(G_BODIES) % dict(l=rng.randint(1, 400), c=rng.randint(1, 120))))
    if nerr:
        items.append(("O", "%d error%s" % (nerr, "s" if nerr > 1 else "")))
        if so:
            items.append(("O", "java.lang.StackOverflowError"))
    if rng.random() < 0.3:
        items.append(("O", rng.choice(G_OTHER)))
    text = "".join("%s.groovy:%s\n\n" % (it[1], it[2]) if it[0] == "E" else it[1] + "\n" for it in items)
    truth = {}
    for it in items:
        if it[0] == "E":
            truth.setdefault(it[1] + ".groovy", []).append(it[2])
    return items, text, truth, (so and not nerr)


def coq_sline(it):
    if it[0] == "H":
        return "SHdr %s %s %s %s %d%%nat" % (cs(it[1]), cs(it[2]), cs(it[3]), cs(it[4]), it[5])
    return "SOther %s" % cs(it[1])


def coq_gitem(it):
    if it[0] == "E":
        return "GErr %s %s" % (cs(it[1]), cs(it[2]))
    return "GOther %s" % cs(it[1])


def coq_expected(r):
    if r[0] == "crash":
        return "ECrash"
    return "EDiag %s %s" % (C.clist(r[1], lambda kv: "(%s, %s)" % (cs(kv[0]), C.clist(kv[1], cs))),
                            C.clist(r[2], lambda t: C.clist(t, cs)))


GRAMMAR_HDR = (C.CASE_HEADER + "From Coq Require Import List NArith Bool String.\nImport ListNotations.\n"
               "From Heph Require Import Diag.Regex Diag.Analyze Diag.Corr Diag.GrammarScala Diag.GrammarGroovy "
               "Diag.CorrGrammar Generated.Regexes.\nOpen Scope string_scope.\n")
GCODES = {1: "the harness rendering differs from the grammar's rendering", 2: "the generated instance is not well-formed",
          3: "the generated instance contains the crash word", 4: "the real result differs from the theorem's right-hand side"}


def impl_analyze(lang, text, filters):
    from src.compilers import java, kotlin, groovy, scala
    cls = {"java": java.JavaCompiler, "kotlin": kotlin.KotlinCompiler, "groovy": groovy.GroovyCompiler,
           "scala": scala.ScalaCompiler}[lang]
    comp = cls("/tmp/in", list(filters))
    failed, matches = comp.analyze_compiler_output(text)
    if comp.crash_msg is not None:
        return ("crash", None, None)
    ms = [list(m) if isinstance(m, tuple) else [m] for m in matches]
    return ("diag", [(k, list(v)) for k, v in failed.items()], ms)


# ------------------------------------------------------------------ Coq side

def cs(s):
    return "(of_string %s)" % C.cstring(s)


def ascii_ok(s):
    return all(0 < ord(c) < 128 for c in s)


def coq_engine_case(term, text, s, allm, subbed, ng):
    def cspan(sp):
        a, e, gs = sp
        return "(%d%%nat, %d%%nat, %s)" % (a, e, C.clist(gs, lambda g: "(%d%%nat, %d%%nat)" % (max(g[0], 0), max(g[1], 0)) if g[0] >= 0 else "(0%nat, 0%nat)"))
    return "(%s, %s, %d%%nat, %s, %s, %s)" % (
        term, cs(text), ng, "None" if s is None else "(Some %s)" % cspan(s), C.clist(allm, cspan), cs(subbed))


ENGINE_HDR = (C.CASE_HEADER + "From Coq Require Import List NArith Bool String.\nImport ListNotations.\n"
              "From Heph Require Import Diag.Regex Diag.Analyze Diag.Corr Generated.Regexes.\nOpen Scope string_scope.\n")


def run(tier, seed, replay=None):
    rep = C.Report("C14", tier, seed, "proof")
    C.setup_repo_import(seed)
    try:
        reginfo = re2coq.emit_generated(os.path.join(C.COQ, "Generated", "Regexes.v"))
        translator_error = None
    except re2coq.Unsupported as e:
        reginfo = {}
        translator_error = str(e)
    proof_ok = C.proof_part(rep, "Diag/Properties_C14.v",
                            ["Diag/Regex.vo", "Diag/Analyze.vo", "Generated/Regexes.vo", "Diag/Corr.vo", "Diag/Proofs.vo"],
                            ["Diag", "Generated"])
    if proof_ok:
        pr2 = C.check_properties_file("Diag/Properties_C14_more.v",
                                      ["Diag/EngineLemmas2.vo", "Diag/FilterProofs.vo", "Diag/AttrScala.vo", "Diag/AttrGroovy.vo",
                                       "Diag/CorrGrammar.vo"])
        proof_ok = C.proof_part_extra(rep, pr2) and proof_ok
    rng = random.Random(C.sub_seed(seed, "c14"))
    import time as _time
    t_proof = _time.time() - rep.t0

    # (ii) engine validation
    ncases = 600 if tier == "quick" else 20000
    eng = []
    tries = 0
    while len(eng) < ncases and tries < ncases * 20:
        tries += 1
        pat = rnd_seq(rng, 2)
        try:
            term, ng = re2coq.translate(pat, 0, need_nonempty=True)
            text = rnd_text(rng)
            if star_height(pat) >= 2:
                text = text[:12]        # nested unbounded repetitions: keep the subject short (exponential backtracking)
            s, allm, subbed, ng2 = py_spans(pat, text)
        except (re2coq.Unsupported, re.error):
            continue
        if any(g[0] < 0 for sp in allm for g in sp[2]) or (s and any(g[0] < 0 for g in s[2])):
            continue          # a group that did not participate: outside the compared fragment
        eng.append((pat, term, text, s, allm, subbed, ng))
    chunk = 150
    files = []
    for k in range(0, len(eng), chunk):
        body = ";\n".join(coq_engine_case(t, x, s, a, sb, ng) for (_, t, x, s, a, sb, ng) in eng[k:k + chunk])
        files.append(("c14e_%d" % (k // chunk), ENGINE_HDR + "Definition cases : list engine_case := [\n%s\n].\n"
                      "Eval vm_compute in (engine_mismatches 0 cases).\n" % body))

    # (iii) end to end
    nout = 240 if tier == "quick" else 12000
    e2e = []
    if replay:
        d = json.load(open(replay))["detail"]
        e2e.append((d["lang"], d["text"], d.get("filters", []), d.get("truth", {}), d.get("crash", False)))
        nout = 0
    for fn in sorted(globmod.glob(os.path.join(C.CORPUS, "C14", "*.json"))):
        d = json.load(open(fn))
        e2e.append((d["lang"], d["text"], d.get("filters", []), d.get("truth", {}), d.get("crash", False)))
    for i in range(nout):
        lang = ["java", "kotlin", "groovy", "scala"][i % 4]
        hw = rng.sample(WORDS[:8], 2) if (lang in ("java", "kotlin") and rng.random() < 0.1) else None
        text, truth, crash = synth(rng, lang, hw)
        filters = []
        if (hw or rng.random() < 0.2) and truth:
            # 1-3 user filter patterns, each disregarding one kind of message
            ws = [w.split()[0] for w in hw][:rng.randint(1, 2)] if hw else rng.sample([w.split()[0] for w in WORDS], rng.randint(1, 3))
            filters = {"java": [r"[a-zA-Z0-9/_]+\.java:\d+: error: %s.*" % w for w in ws],
                       "kotlin": [r"[a-zA-Z0-9/_]+\.kt:\d+:\d+: error: %s.*" % w for w in ws],
                       "groovy": [], "scala": []}[lang]
        e2e.append((lang, text, filters, truth, crash))
    # (iv) grammar instances (also pushed through the end-to-end comparison above)
    grng = random.Random(C.sub_seed(seed, "c14-grammar"))
    ngram = 0 if replay else (40 if tier == "quick" else 2000)
    gram = []          # (lang, items, text, truth, crash)
    for i in range(ngram):
        items, text, truth = scala_instance(grng)
        gram.append(("scala", items, text, truth, False))
        items, text, truth, crash = groovy_instance(grng)
        gram.append(("groovy", items, text, truth, crash))
    gram = [g for g in gram if ascii_ok(g[2])]
    n_e2e_plain = len(e2e)
    for lang, items, text, truth, crash in (gram[:24] if tier == "quick" else gram[:400]):
        e2e.append((lang, text, [], truth, crash))
    e2e = [x for x in e2e if ascii_ok(x[1])]
    gram_results = [impl_analyze(lang, text, []) for lang, items, text, truth, crash in gram]
    gchunk = 100
    gfiles = []
    for lang in ("scala", "groovy"):
        sel = [(g, r) for g, r in zip(gram, gram_results) if g[0] == lang]
        for k in range(0, len(sel), gchunk):
            body = ";\n".join("(%s, %s, %s)" % (C.clist(g[1], coq_sline if lang == "scala" else coq_gitem), cs(g[2]), coq_expected(r))
                              for g, r in sel[k:k + gchunk])
            gfiles.append(("c14g%s_%d" % (lang[0], k // gchunk),
                           GRAMMAR_HDR + "Definition cases : list %s_gcase := [\n%s\n].\n"
                           "Eval vm_compute in (map %s_gcase_code cases).\n" % (lang, body, lang)))
    # filter patterns = deletion (theorem filters_are_deletion_partial), on the real code
    filt_checked = filt_differs = filt_created_crash = 0
    results = []
    for lang, text, filters, truth, crash in e2e:
        results.append(impl_analyze(lang, text, filters))
        if filters and results[-1][0] == "diag":
            t2 = text
            for f in filters:
                t2 = re.sub(f, "", t2)
            r2 = impl_analyze(lang, t2, [])
            filt_checked += 1
            if r2[0] == "crash":
                filt_created_crash += 1          # the refuted form (filters_can_create_crash): not a violation
            elif r2 != results[-1]:
                filt_differs += 1
                rep.violation("filter-deletion", "%s: analysing with filter patterns differs from deleting their matches first" % lang,
                              dict(lang=lang, text=text, filters=filters, truth=truth, crash=crash, impl=results[-1], impl_deleted=r2))
    chunk2 = 12
    for k in range(0, len(e2e), chunk2):
        items = []
        for (lang, text, filters, truth, crash), r in zip(e2e[k:k + chunk2], results[k:k + chunk2]):
            fts = [re2coq.translate(f, 0, need_nonempty=True)[0] for f in filters]
            if r[0] == "crash":
                exp = "ECrash"
            else:
                exp = "EDiag %s %s" % (
                    C.clist(r[1], lambda kv: "(%s, %s)" % (cs(kv[0]), C.clist(kv[1], cs))),
                    C.clist(r[2], lambda t: C.clist(t, cs)))
            items.append("(comp_%s, %s, %s, %s)" % (lang, C.clist(fts), cs(text), exp))
        files.append(("c14a_%d" % (k // chunk2), ENGINE_HDR + "Definition cases : list analyze_case := [\n%s\n].\n"
                      "Eval vm_compute in (analyze_mismatches 0 cases).\n" % ";\n".join(items)))
    files += gfiles
    C.clean_cases("c14")
    t_c0 = _time.time()
    res = C.run_case_files(files, timeout=1500)
    t_cases = _time.time() - t_c0
    eng_mis, an_mis = [], []
    gram_codes = {"scala": [], "groovy": []}
    for name, _ in gfiles:
        rc, out = res[name]
        if rc != 0:
            rep.violation("case-file", "case file %s did not evaluate: %s" % (name, out[-500:]),
                          dict(broken=name, log=out[-3000:]), no_input=True)
            continue
        gram_codes["scala" if name.startswith("c14gs_") else "groovy"] += C.parse_nat_list(C.parse_eval_outputs(out)[-1])
    for name, _ in [f for f in files if not f[0].startswith("c14g")]:
        rc, out = res[name]
        if rc != 0:
            rep.violation("case-file", "case file %s did not evaluate: %s" % (name, out[-500:]),
                          dict(broken=name, log=out[-3000:]), no_input=True)
            continue
        idx = C.parse_nat_list(C.parse_eval_outputs(out)[-1])
        k = int(name.split("_")[1])
        if name.startswith("c14e_"):
            eng_mis += [k * chunk + i for i in idx]
        else:
            an_mis += [k * chunk2 + i for i in idx]
    C.clean_cases("c14")

    # the statement, on the implementation
    spec_viol = 0
    lang_hist = {}
    judged_bad = set()
    for i, ((lang, text, filters, truth, crash), r) in enumerate(zip(e2e, results)):
        lang_hist[lang] = lang_hist.get(lang, 0) + 1
        problem = None
        if crash:
            if r[0] != "crash":
                problem = "output carrying a compiler stack trace was not classified as a crash"
        elif r[0] == "crash":
            problem = "diagnostics without a stack trace were classified as a crash"
        elif not filters:
            got = dict(r[1])
            if set(got) != set(truth):
                problem = "files %s reported, but the compiler printed errors exactly for %s" % (sorted(got), sorted(truth))
            else:
                for f in truth:
                    if len(got[f]) != len(truth[f]):
                        problem = "%d messages for %s, the compiler printed %d" % (len(got[f]), f, len(truth[f]))
                    else:
                        for g, t in zip(got[f], truth[f]):
                            core = t.split("\n")[0].strip()
                            if core[:12] not in g and g.strip()[:12] not in t:
                                problem = "message %r for %s does not carry the diagnostic %r" % (g[:60], f, core[:60])
        else:
            got = dict(r[1])
            words = [re.search(r"error: (\w+)", f).group(1) for f in filters]
            want = {}
            for f, msgs in truth.items():
                keep = [m_ for m_ in msgs if not any(re.search(r"error: %s" % w, m_) or m_.startswith(w) for w in words)]
                if keep:
                    want[f] = keep
            if set(got) != set(want):
                problem = "with filter patterns %s the files %s are reported, expected %s" % (words, sorted(got), sorted(want))
            elif any(len(got[f]) != len(want[f]) for f in want):
                problem = "with filter patterns %s a filtered message is still reported (or an unfiltered one dropped)" % (words,)
        if problem:
            spec_viol += 1
            judged_bad.add(i)
            rep.violation("spec", "%s: %s" % (lang, problem),
                          dict(lang=lang, text=text, filters=filters, truth=truth, crash=crash, impl=r))
    for i in an_mis:
        lang, text, filters, truth, crash = e2e[i]
        rep.violation("correspondence", "%s: model and analyze_compiler_output differ on a synthesised output" % lang,
                      dict(lang=lang, text=text, filters=filters, truth=truth, crash=crash, impl=results[i],
                           broken="correspondence Diag.Analyze.analyze vs src/compilers/base.py"),
                      no_input=(i not in judged_bad))
    gram_bad = 0
    for lang in ("scala", "groovy"):
        sel = [g for g in gram if g[0] == lang]
        for g, code in zip(sel, gram_codes[lang]):
            if code:
                gram_bad += 1
                rep.violation("grammar", "%s: a generated instance of the output grammar: %s" % (lang, GCODES.get(code, code)),
                              dict(lang=lang, text=g[2], filters=[], truth=g[3], crash=g[4], items=g[1], code=code,
                                   impl=impl_analyze(lang, g[2], []),
                                   broken="grammar instance generator of harness/c14.py vs Diag/Grammar%s.v" % lang.capitalize()),
                              no_input=(code != 4))
    for i in eng_mis:
        pat, term, text, s, allm, subbed, ng = eng[i]
        rep.violation("engine", "Coq regex engine and Python re differ on pattern %r, text %r" % (pat, text),
                      dict(pattern=pat, text=text, python=dict(search=s, finditer=allm, sub=subbed),
                           broken="engine validation Diag.Regex vs CPython re"), no_input=True)
    if translator_error:
        rep.violation("translator", "a compiler regex uses a construct outside the modelled fragment: %s" % translator_error,
                      dict(broken="re2coq translator: " + translator_error), no_input=True)
    if not proof_ok and not rep.violations:
        rep.violation("proof", rep.proof_broken, dict(broken=rep.proof_broken), no_input=True)
    rep.add(evaluations=len(eng) + len(e2e), engine_cases=len(eng), outputs=len(e2e),
            distinct_nontrivial=len({(x[0], x[2]) for x in eng if x[4]}) + len({(x[0], x[1]) for x in e2e if x[3]}),
            rule="engine: random patterns of the supported fragment (depth <= 2) x random strings over a 11-letter alphabet, "
                 "search/finditer/sub compared span by span; end to end: synthesised batch outputs (1-8 files, 0-3 errors per file, "
                 "interleaved warnings/notes/summaries, shuffled, 8% with an embedded stack trace, 15% with a user filter pattern) for "
                 "the four compilers. non-trivial = at least one match / at least one failing file; distinct by (pattern,text) / (lang,text)",
            traces_validated_against_impl=len(e2e), engine_mismatches=len(eng_mis), analyze_mismatches=len(an_mis),
            spec_violations=spec_viol, language_histogram=lang_hist, regexes=reginfo,
            grammar_instances=dict(scala=len([g for g in gram if g[0] == "scala"]), groovy=len([g for g in gram if g[0] == "groovy"])),
            grammar_instances_evaluated=dict(scala=len(gram_codes["scala"]), groovy=len(gram_codes["groovy"])),
            grammar_error_blocks=dict(scala=sum(1 for g in gram if g[0] == "scala" for it in g[1] if it[0] == "H"),
                                      groovy=sum(1 for g in gram if g[0] == "groovy" for it in g[1] if it[0] == "E")),
            grammar_scala_blocks_cut_at_dash=sum(1 for g, r in zip(gram, gram_results) if g[0] == "scala" and r[0] == "diag"
                                                 for f, msgs in r[1] for m_ in msgs if m_ not in g[3].get(f, [])),
            grammar_groovy_stackoverflow_crashes=sum(1 for g in gram if g[0] == "groovy" and g[4]),
            phase_wall_s=dict(proof=round(t_proof, 1), case_files=round(t_cases, 1)),
            grammar_mismatches=gram_bad, grammar_in_end_to_end=len(e2e) - n_e2e_plain,
            grammar_rule="scalac: 0-5 error blocks (9 header kinds incl. empty and one containing 'Error: '; 1-40 dashes; 1-6 block lines, half of the "
                         "instances with '-' inside block lines; lines with 'Error: ' or '-- ' alone), warning headers, summaries; groovyc: 0-5 reports "
                         "(6 body shapes incl. empty body and a body mentioning another .groovy: file), notes, empty lines, 15% with StackOverflowError; "
                         "for every instance the kernel evaluates wf_s / wf_gitem, the text-level crash tests, render = harness rendering, and "
                         "group_by_file (serrs|gerrs) = result of the real analyze_compiler_output",
            filter_deletion_checked=filt_checked, filter_deletion_differs=filt_differs, filter_deletion_created_crash=filt_created_crash,
            samples=[dict(lang=e2e[0][0], text=e2e[0][1][:400], impl=results[0])] if e2e else [],
            trusted_base=C.TRUSTED_BASE_COMMON + [
                "harness/re2coq.py: CPython's re._parser parse tree -> Coq regex AST (fail-closed outside LITERAL, NOT_LITERAL, ANY, IN, MAX/MIN_REPEAT, SUBPATTERN, ASSERT)",
                "Diag/Regex.v is a model of CPython's sre matcher, validated by (ii) on every run; inputs are ASCII"])
    rep.assumptions = ["compiler output is ASCII; patterns cannot match the empty string (checked by the translator)"]
    return rep.finish()
