"""gen2coq.py -- translate the recursion scheme of /repo/src/generators/generator.py into a Coq table.

Python's `ast` is run on the source of class Generator (never imported for this purpose).  For every
method the translator follows the bookkeeping of `self.depth` statement by statement

    X = self.depth            remember the current offset under the name X
    self.depth += k / -= k    offset + k / - k          (k an integer literal)
    self.depth = X            back to the remembered offset

(offset = self.depth at that program point minus self.depth at entry of the method) and records every
call `self.m(...)` of another method of the class together with the offset in effect at the call, how the
callee's `only_leaves` parameter is bound (literal True / literal False or default / the caller's own
only_leaves / callee has no such parameter), and how `gen_bottom` is bound for calls of generate_expr
(absent, type-directed, guarded by `self.depth > cfg.limits.max_depth * 2`).  References to a method
that are not calls (`candidates = [self.gen_variable_decl, ...]`) count as call sites at that point.
get_generators is evaluated symbolically: which generators it returns for the void type, in the branch
`self.depth >= cfg.limits.max_depth or only_leaves` ("leaf" generators), and otherwise; these become the
dispatch sites of generate_expr (which must call `ut.random.choice(<result>)(...)` exactly once).
Only methods from which generate_expr is reachable are kept (the expression-generating methods and
the declaration generators that contain expressions); every other method must leave self.depth alone.

FAIL-CLOSED: any statement / expression / use of self.depth outside the shapes above raises Unsupported,
which harness/c18.py reports as a violation.
"""
import ast
import os

import common as C

SRC = os.path.join(C.REPO, "src", "generators", "generator.py")
CLASS = "Generator"
DISPATCHER = "generate_expr"
SOURCE = "get_generators"
CONST = "gens.constant"
OL = "only_leaves"
OLK = {"T": "OLt", "F": "OLf", "P": "OLp", "N": "OLf", "A": "OLa"}
D_DIRECT, D_VOID, D_LEAF, D_FULL = 0, 1, 2, 3


class Unsupported(Exception):
    pass


def _is_self_attr(n, attr=None):
    return (isinstance(n, ast.Attribute) and isinstance(n.value, ast.Name) and n.value.id == "self"
            and (attr is None or n.attr == attr))


def _is_max_depth(n):
    """cfg.limits.max_depth"""
    return (isinstance(n, ast.Attribute) and n.attr == "max_depth" and isinstance(n.value, ast.Attribute)
            and n.value.attr == "limits" and isinstance(n.value.value, ast.Name) and n.value.value.id == "cfg")


def _depth_guard(n):
    """Compare(self.depth OP bound) -> 'ge_max' / 'gt_2max' / ...; None when n is not such a comparison"""
    if not (isinstance(n, ast.Compare) and _is_self_attr(n.left, "depth")):
        return None
    if len(n.ops) != 1:
        raise Unsupported("line %d: chained comparison of self.depth" % n.lineno)
    op = {ast.GtE: "ge", ast.Gt: "gt", ast.Lt: "lt", ast.LtE: "le"}.get(type(n.ops[0]))
    b = n.comparators[0]
    if op is None:
        raise Unsupported("line %d: comparison operator on self.depth" % n.lineno)
    if _is_max_depth(b):
        return op + "_max"
    if isinstance(b, ast.BinOp) and isinstance(b.op, ast.Mult):
        for x, y in ((b.left, b.right), (b.right, b.left)):
            if _is_max_depth(x) and isinstance(y, ast.Constant) and y.value == 2:
                return op + "_2max"
    raise Unsupported("line %d: self.depth compared with something else than cfg.limits.max_depth [* 2]" % n.lineno)


def _params(fn):
    a = fn.args
    if a.vararg or a.kwarg or a.posonlyargs:
        raise Unsupported("line %d: *args / **kwargs / positional-only parameters in %s" % (fn.lineno, fn.name))
    names = [x.arg for x in a.args]
    defaults = dict(zip(names[len(names) - len(a.defaults):], a.defaults))
    for x, d in zip(a.kwonlyargs, a.kw_defaults):
        names.append(x.arg)
        if d is not None:
            defaults[x.arg] = d
    return names, defaults


class Scan:
    """one method (or one closure of get_generators)"""

    def __init__(self, methods, fn, owner_params):
        self.methods = methods
        self.fn = fn
        self.name = fn.name if hasattr(fn, "name") else "<lambda>"
        self.owner_params = owner_params        # parameter names visible as `only_leaves`
        self.sites = []
        self.guards = []
        self.exits = set()
        self.max_off = 0
        self.depth_writes = 0
        self.var_guards = {}
        self.dispatch = None                    # (variable holding the result of get_generators, offset of the dispatch)
        self.source_var = None
        self.source_var_loads = 0

    # ---- expressions
    def bind(self, call, callee, pname):
        names, defaults = _params(self.methods[callee])
        if pname not in names:
            return "absent-param", None
        if any(isinstance(a, ast.Starred) for a in call.args):
            raise Unsupported("line %d: *args in a call of %s" % (call.lineno, callee))
        i = names.index(pname) - 1                # without self
        if 0 <= i < len(call.args):
            return "arg", call.args[i]
        for k in call.keywords:
            if k.arg is None:
                raise Unsupported("line %d: **kwargs in a call of %s, which has a parameter %s" % (call.lineno, callee, pname))
            if k.arg == pname:
                return "arg", k.value
        if pname not in defaults:
            raise Unsupported("line %d: %s not given and without default in a call of %s" % (call.lineno, pname, callee))
        return "arg", defaults[pname]

    def ol_kind(self, call, callee):
        how, e = self.bind(call, callee, OL)
        if how == "absent-param":
            return "N"
        if isinstance(e, ast.Constant) and e.value is True:
            return "T"
        if isinstance(e, ast.Constant) and e.value is False:
            return "F"
        if isinstance(e, ast.Name) and e.id == OL and OL in self.owner_params:
            return "P"
        raise Unsupported("line %d: only_leaves of %s bound to an expression the translator does not know" % (call.lineno, callee))

    def bottom_kind(self, call, callee):
        if callee != DISPATCHER:
            return 0
        how, e = self.bind(call, callee, "gen_bottom")
        if how == "absent-param":
            raise Unsupported("generate_expr lost its gen_bottom parameter")
        if isinstance(e, ast.Constant) and e.value is False:
            return 0
        if isinstance(e, ast.Constant) and e.value is True:
            return 3
        if isinstance(e, ast.Name) and "gt_2max" in self.var_guards.get(e.id, []):
            return 2
        return 1

    def add_site(self, callee, node, off, deferred, call=None):
        self.sites.append(dict(callee=callee, off=off, line=node.lineno, deferred=deferred,
                               ol=self.ol_kind(call, callee) if call is not None else "A",
                               bottom=self.bottom_kind(call, callee) if call is not None else 0,
                               indirect=call is None))

    def expr(self, n, off, deferred=False):
        if n is None:
            return
        if isinstance(n, (ast.NamedExpr, ast.Await, ast.Yield, ast.YieldFrom)):
            raise Unsupported("line %d: %s" % (n.lineno, type(n).__name__))
        if isinstance(n, ast.Call):
            f = n.func
            if _is_self_attr(f) and f.attr in self.methods:
                self.add_site(f.attr, n, off, deferred, call=n)
                for a in n.args:
                    self.expr(a, off, deferred)
                for k in n.keywords:
                    self.expr(k.value, off, deferred)
                return
            if isinstance(f, ast.Call) and self.source_var is not None and any(
                    isinstance(a, ast.Name) and a.id == self.source_var for a in f.args):
                if self.dispatch is not None:
                    raise Unsupported("line %d: second dispatch on the result of %s" % (n.lineno, SOURCE))
                self.dispatch = (self.source_var, off, n.lineno)
        if _is_self_attr(n) and n.attr in self.methods:
            if not isinstance(n.ctx, ast.Load):
                raise Unsupported("line %d: method %s is assigned" % (n.lineno, n.attr))
            self.add_site(n.attr, n, off, deferred)
            return
        if _is_self_attr(n, "depth"):
            raise Unsupported("line %d: use of self.depth the translator does not know (in %s)" % (n.lineno, self.name))
        if isinstance(n, ast.Name) and n.id == self.source_var and isinstance(n.ctx, ast.Load):
            self.source_var_loads += 1
        g = _depth_guard(n)
        if g is not None:
            self.guards.append((g, n.lineno))
            self.expr(n.comparators[0], off, deferred)
            return
        if isinstance(n, ast.Lambda):
            self.expr(n.body, off, True)
            for d in n.args.defaults + [x for x in n.args.kw_defaults if x is not None]:
                self.expr(d, off, deferred)
            return
        for c in ast.iter_child_nodes(n):
            self.expr(c, off, deferred)

    # ---- statements; returns the offset after the block, None when every path left the method
    def block(self, stmts, off, saved, nested=False):
        for s in stmts:
            if off is None:
                break                                   # unreachable code after return
            off = self.stmt(s, off, saved, nested)
        return off

    def stmt(self, s, off, saved, nested):
        self.max_off = max(self.max_off, off)
        if isinstance(s, ast.Expr):
            self.expr(s.value, off, nested)
            return off
        if isinstance(s, (ast.Assign, ast.AnnAssign)):
            targets = s.targets if isinstance(s, ast.Assign) else [s.target]
            if any(_is_self_attr(t, "depth") for t in targets):
                self.depth_writes += 1
                if nested or len(targets) != 1:
                    raise Unsupported("line %d: assignment to self.depth in a closure / a multiple assignment" % s.lineno)
                if isinstance(s.value, ast.Name) and s.value.id in saved:
                    return saved[s.value.id]
                if self.name == "__init__" and isinstance(s.value, ast.Constant) and isinstance(s.value.value, int):
                    return off
                raise Unsupported("line %d: self.depth assigned something else than a saved value of itself" % s.lineno)
            if s.value is not None and _is_self_attr(s.value, "depth"):
                if len(targets) != 1 or not isinstance(targets[0], ast.Name):
                    raise Unsupported("line %d: self.depth saved into something else than a local name" % s.lineno)
                if targets[0].id in saved and saved[targets[0].id] != off:
                    raise Unsupported("line %d: %s saves two different offsets" % (s.lineno, targets[0].id))
                saved[targets[0].id] = off
                return off
            g0 = len(self.guards)
            self.expr(s.value, off, nested)
            for t in targets:
                for nm in ast.walk(t):
                    if isinstance(nm, ast.Name) and nm.id == OL:
                        raise Unsupported("line %d: only_leaves is reassigned" % s.lineno)
                    if isinstance(nm, ast.Name) and nm.id in saved:
                        raise Unsupported("line %d: the saved depth %s is reassigned" % (s.lineno, nm.id))
                if isinstance(t, ast.Name):
                    self.var_guards[t.id] = [g for g, _ in self.guards[g0:]]
                    v = s.value
                    if isinstance(v, ast.Call) and _is_self_attr(v.func, SOURCE):
                        if self.source_var is not None:
                            raise Unsupported("line %d: %s called twice" % (s.lineno, SOURCE))
                        self.source_var = t.id
                else:
                    self.expr(t, off, nested)
            return off
        if isinstance(s, ast.AugAssign):
            if _is_self_attr(s.target, "depth"):
                self.depth_writes += 1
                if nested or not (isinstance(s.value, ast.Constant) and isinstance(s.value.value, int) and s.value.value > 0):
                    raise Unsupported("line %d: self.depth changed by something else than a positive literal" % s.lineno)
                if isinstance(s.op, ast.Add):
                    off += s.value.value
                elif isinstance(s.op, ast.Sub):
                    off -= s.value.value
                    if off < 0:
                        raise Unsupported("line %d: self.depth decremented below its value at entry" % s.lineno)
                else:
                    raise Unsupported("line %d: operator on self.depth" % s.lineno)
                self.max_off = max(self.max_off, off)
                return off
            self.expr(s.value, off, nested)
            self.expr(s.target, off, nested)
            return off
        if isinstance(s, ast.Return):
            self.expr(s.value, off, nested)
            if not nested:
                self.exits.add(off)
            return None
        if isinstance(s, ast.Raise):
            self.expr(s.exc, off, nested)
            return None
        if isinstance(s, ast.If):
            self.expr(s.test, off, nested)
            sa, sb = dict(saved), dict(saved)
            a = self.block(s.body, off, sa, nested)
            b = self.block(s.orelse, off, sb, nested)
            for d in (sa, sb):
                for k, v in d.items():
                    if saved.get(k, v) != v:
                        raise Unsupported("line %d: %s saves two different offsets" % (s.lineno, k))
                    saved[k] = v
            if a is None:
                return b
            if b is None:
                return a
            if a != b:
                raise Unsupported("line %d: the branches leave self.depth at different offsets" % s.lineno)
            return a
        if isinstance(s, (ast.For, ast.While)):
            if isinstance(s, ast.For):
                self.expr(s.iter, off, nested)
                self.expr(s.target, off, nested)
            else:
                self.expr(s.test, off, nested)
            a = self.block(s.body, off, saved, nested)
            if a is not None and a != off:
                raise Unsupported("line %d: a loop body changes self.depth" % s.lineno)
            b = self.block(s.orelse, off, saved, nested)
            if b is not None and b != off:
                raise Unsupported("line %d: a loop's else changes self.depth" % s.lineno)
            return off
        if isinstance(s, ast.FunctionDef):
            sub = self.block(s.body, off, {}, True)
            if sub is not None and sub != off:
                raise Unsupported("line %d: closure changes self.depth" % s.lineno)
            return off
        if isinstance(s, (ast.Pass, ast.Break, ast.Continue)):
            return off
        if isinstance(s, ast.Assert):
            self.expr(s.test, off, nested)
            return off
        raise Unsupported("line %d: statement %s" % (s.lineno, type(s).__name__))

    def run(self):
        end = self.block(self.fn.body, 0, {}, False)
        if end is not None:
            self.exits.add(end)
        return self


# --------------------------------------------------------------------------- get_generators

class Dispatch:
    """symbolic evaluation of get_generators: the generators returned per context"""

    def __init__(self, methods, fn):
        self.methods = methods
        self.fn = fn
        self.params = _params(fn)[0]
        self.returns = {D_VOID: set(), D_LEAF: set(), D_FULL: set()}
        self.guards = []

    def sites_of(self, node, is_stmts=False):
        fake = ast.FunctionDef(name=SOURCE + ".<closure>", body=node if is_stmts else [ast.Expr(value=node, lineno=getattr(node, "lineno", 0))],
                               args=self.fn.args, decorator_list=[], lineno=self.fn.lineno)
        sc = Scan(self.methods, fake, self.params)
        if is_stmts:
            sc.block(node, 0, {}, True)
        else:
            sc.expr(node, 0, True)
        if sc.depth_writes:
            raise Unsupported("%s writes self.depth" % SOURCE)
        self.guards += sc.guards
        return {(s["callee"], s["ol"], s["line"]) for s in sc.sites}

    def ev(self, e, env):
        if isinstance(e, ast.Lambda):
            return self.sites_of(e.body)
        if isinstance(e, ast.Name):
            if e.id in env:
                return set(env[e.id])
            if e.id in self.params:
                return set()
            raise Unsupported("line %d: %s uses the unknown name %s" % (e.lineno, SOURCE, e.id))
        if isinstance(e, ast.Attribute) and isinstance(e.value, ast.Name) and e.value.id == "gens":
            return {(CONST, "N", e.lineno)}
        if isinstance(e, (ast.List, ast.Tuple)):
            return set().union(*[self.ev(x, env) for x in e.elts]) if e.elts else set()
        if isinstance(e, ast.Dict):
            for k in e.keys:
                if self.sites_of(k):
                    raise Unsupported("line %d: generator used as a dictionary key" % e.lineno)
            return set().union(*[self.ev(x, env) for x in e.values]) if e.values else set()
        if isinstance(e, ast.BinOp) and isinstance(e.op, ast.Add):
            return self.ev(e.left, env) | self.ev(e.right, env)
        if isinstance(e, ast.IfExp):
            return self.ev(e.body, env) | self.ev(e.orelse, env)
        if (isinstance(e, ast.Call) and isinstance(e.func, ast.Attribute) and e.func.attr == "get"
                and isinstance(e.func.value, ast.Name) and e.func.value.id in env):
            r = set(env[e.func.value.id])
            for a in e.args[1:]:
                r |= self.ev(a, env)
            return r
        s = self.sites_of(e)
        if s:
            raise Unsupported("line %d: %s builds a generator in a way the translator does not know" % (e.lineno, SOURCE))
        return set()

    def classify(self, test):
        if (isinstance(test, ast.Compare) and isinstance(test.left, ast.Name) and test.left.id == "expr_type"
                and len(test.ops) == 1 and isinstance(test.ops[0], ast.Eq)):
            c = test.comparators[0]
            if (isinstance(c, ast.Call) and isinstance(c.func, ast.Attribute) and c.func.attr == "get_void_type"):
                return D_VOID
        if isinstance(test, ast.BoolOp) and isinstance(test.op, ast.Or) and len(test.values) == 2:
            a, b = test.values
            if isinstance(b, ast.Name) and b.id == OL and isinstance(a, ast.Compare) and _is_self_attr(a.left, "depth"):
                if _depth_guard(a) != "ge_max":
                    raise Unsupported("line %d: the leaf guard of %s is not `self.depth >= cfg.limits.max_depth`" % (test.lineno, SOURCE))
                self.guards.append(("ge_max", test.lineno))
                return D_LEAF
        if self.sites_of(test):
            raise Unsupported("line %d: generator called in a test of %s" % (test.lineno, SOURCE))
        return None

    def block(self, stmts, env, ctx):
        """returns True when every path through the block returns"""
        for s in stmts:
            if isinstance(s, ast.Expr) and isinstance(s.value, ast.Constant):
                continue
            if isinstance(s, ast.FunctionDef):
                env[s.name] = self.sites_of(s.body, True)
            elif isinstance(s, ast.Assign) and len(s.targets) == 1 and isinstance(s.targets[0], ast.Name):
                env[s.targets[0].id] = self.ev(s.value, env)
            elif (isinstance(s, ast.Expr) and isinstance(s.value, ast.Call) and isinstance(s.value.func, ast.Attribute)
                  and s.value.func.attr == "append" and isinstance(s.value.func.value, ast.Name)
                  and s.value.func.value.id in env and len(s.value.args) == 1):
                env[s.value.func.value.id] = set(env[s.value.func.value.id]) | self.ev(s.value.args[0], env)
            elif isinstance(s, ast.Return):
                self.returns[ctx] |= self.ev(s.value, env)
                return True
            elif isinstance(s, ast.If):
                k = self.classify(s.test)
                if k is not None and ctx != D_FULL:
                    raise Unsupported("line %d: nested context test in %s" % (s.lineno, SOURCE))
                ea, eb = {k2: set(v) for k2, v in env.items()}, {k2: set(v) for k2, v in env.items()}
                ta = self.block(s.body, ea, k if k is not None else ctx)
                tb = self.block(s.orelse, eb, ctx)
                if k is not None and not ta:
                    raise Unsupported("line %d: a context branch of %s falls through" % (s.lineno, SOURCE))
                if ta and tb:
                    return True
                env.clear()
                for src, dead in ((ea, ta), (eb, tb)):
                    if dead:
                        continue
                    for k2, v in src.items():
                        env[k2] = set(env.get(k2, set())) | v
            else:
                raise Unsupported("line %d: statement %s in %s" % (s.lineno, type(s).__name__, SOURCE))
        return False

    def run(self):
        if not self.block(self.fn.body, {}, D_FULL):
            raise Unsupported("%s can fall off its end" % SOURCE)
        return self


# --------------------------------------------------------------------------- the table

def extract(path=SRC):
    tree = ast.parse(open(path).read())
    classes = [n for n in tree.body if isinstance(n, ast.ClassDef) and n.name == CLASS]
    if len(classes) != 1:
        raise Unsupported("class %s not found exactly once" % CLASS)
    methods = {}
    for n in classes[0].body:
        if isinstance(n, ast.FunctionDef):
            if n.name in methods:
                raise Unsupported("method %s defined twice" % n.name)
            if n.decorator_list:
                raise Unsupported("line %d: decorated method %s" % (n.lineno, n.name))
            methods[n.name] = n
        elif isinstance(n, (ast.ClassDef, ast.AsyncFunctionDef)):
            raise Unsupported("line %d: nested class / async method" % n.lineno)
    for need in (DISPATCHER, SOURCE):
        if need not in methods:
            raise Unsupported("method %s not found" % need)
    # depth is only ever written through `self`
    for n in ast.walk(tree):
        if isinstance(n, ast.Attribute) and n.attr == "depth" and isinstance(n.ctx, ast.Store) and not _is_self_attr(n):
            raise Unsupported("line %d: .depth of something else than self is written" % n.lineno)
    scans = {}
    for name, fn in methods.items():
        if name == SOURCE:
            continue
        scans[name] = Scan(methods, fn, _params(fn)[0]).run()
    disp = Dispatch(methods, methods[SOURCE]).run()
    # only the dispatcher calls get_generators, once, and dispatches on its result exactly once
    for name, sc in scans.items():
        for s in sc.sites:
            if s["callee"] == SOURCE and (name != DISPATCHER or s["indirect"] or s["deferred"]):
                raise Unsupported("line %d: %s used outside %s" % (s["line"], SOURCE, DISPATCHER))
    dsc = scans[DISPATCHER]
    src_sites = [s for s in dsc.sites if s["callee"] == SOURCE]
    if len(src_sites) != 1 or dsc.dispatch is None or dsc.source_var_loads != 1:
        raise Unsupported("%s does not call %s once and dispatch once on its result" % (DISPATCHER, SOURCE))
    if src_sites[0]["ol"] != "P" or src_sites[0]["off"] != dsc.dispatch[1]:
        raise Unsupported("%s does not hand its own only_leaves to %s / changes the depth before dispatching" % (DISPATCHER, SOURCE))
    dsc.sites = [s for s in dsc.sites if s["callee"] != SOURCE]
    for cls, ret in sorted(disp.returns.items()):
        seen_const = False
        for (callee, ol, line) in sorted(ret):
            if callee == CONST:                 # one site stands for all constant generators of a context
                if seen_const:
                    continue
                seen_const = True
            dsc.sites.append(dict(callee=callee, off=dsc.dispatch[1], line=line, deferred=False, ol=ol, bottom=0,
                                  indirect=False, disp=cls))
    # methods from which the dispatcher is reachable
    graph = {name: {s["callee"] for s in sc.sites} for name, sc in scans.items()}
    reach = {DISPATCHER}
    changed = True
    while changed:
        changed = False
        for name, succ in graph.items():
            if name not in reach and succ & reach:
                reach.add(name)
                changed = True
    for name, sc in scans.items():
        if name not in reach and name != "__init__" and sc.depth_writes:
            raise Unsupported("%s writes self.depth but generates no expression" % name)
    order = [n for n in methods if n in reach]
    ids = {n: i for i, n in enumerate(order)}
    ids[CONST] = len(order)
    entries = []
    for name in order:
        sc = scans[name]
        sites = []
        for s in sc.sites:
            if s["callee"] not in ids:
                continue
            if s["deferred"]:
                raise Unsupported("line %d: %s calls the generator %s from a closure" % (s["line"], name, s["callee"]))
            sites.append(dict(s, disp=s.get("disp", D_DIRECT)))
        if len(sc.exits - {0}) > 1:
            raise Unsupported("%s leaves self.depth at several offsets %s" % (name, sorted(sc.exits)))
        entries.append(dict(id=ids[name], name=name, line=methods[name].lineno, inc=sc.max_off, leak=max(sc.exits | {0}),
                            sites=sites, guards=sc.guards,
                            leaf=any(c == name for (c, _, _) in disp.returns[D_LEAF])))
    entries.append(dict(id=ids[CONST], name=CONST, line=0, inc=0, leak=0, sites=[], guards=[], leaf=True))
    return dict(entries=entries, ids=ids, dispatch={k: sorted({c for (c, _, _) in v}) for k, v in disp.returns.items()},
                dispatch_guards=disp.guards)


def summary(tab):
    es = tab["entries"]
    flat = {(e["name"], s["callee"]) for e in es for s in e["sites"] if s["off"] == 0}
    return dict(generators=len(es), incrementing=sorted(e["name"] for e in es if e["inc"] > 0),
                increments={e["name"]: e["inc"] for e in es if e["inc"] > 0},
                leaky={e["name"]: e["leak"] for e in es if e["leak"] > 0},
                call_sites=sum(len(e["sites"]) for e in es),
                sites_inside_increment=sum(1 for e in es for s in e["sites"] if s["off"] > 0),
                sites_outside_increment=sum(1 for e in es for s in e["sites"] if s["off"] == 0),
                non_incrementing_edges=len(flat),
                only_leaves_true_sites=sorted("%s->%s@%d" % (e["name"], s["callee"], s["line"]) for e in es for s in e["sites"] if s["ol"] == "T"),
                depth_guards=sorted({"%s:%s@%d" % (e["name"], g, ln) for e in es for (g, ln) in e["guards"]}
                                    | {"%s:%s@%d" % (SOURCE, g, ln) for (g, ln) in tab["dispatch_guards"]}),
                bottom_cut_sites=sorted("%s->%s@%d" % (e["name"], s["callee"], s["line"]) for e in es for s in e["sites"] if s["bottom"] == 2),
                dispatch_void=tab["dispatch"][D_VOID], dispatch_leaf=tab["dispatch"][D_LEAF], dispatch_full=tab["dispatch"][D_FULL])


# mirrors IR/Scheme.v listed_names; only used to SEARCH example paths, which the kernel re-checks
LISTED = {("gen_array_expr", DISPATCHER), ("gen_assignment", DISPATCHER), ("gen_variable", DISPATCHER),
          ("_gen_func_ref", DISPATCHER), ("_gen_func_call", DISPATCHER)}


def _succ(tab, node):
    """permitted at every depth: no full-branch site, no listed flat edge, no site cut by depth > 2 * max_depth"""
    g, b = node
    e = tab["entries"][g]
    for j, s in enumerate(e["sites"]):
        if s["disp"] == D_FULL or s["bottom"] == 2 or (s["off"] == 0 and (e["name"], s["callee"]) in LISTED):
            continue
        modes = {"T": [True], "F": [False], "N": [False], "P": [b], "A": [True, False]}[s["ol"]]
        for b2 in modes:
            yield j, s, (tab["ids"][s["callee"]], b2)


def find_cycle(tab, avoid=("gen_variable_decl",)):
    """a shortest cycle through the dispatcher that every depth permits and that contains an increment.  The table
    over-approximates the code: generate_expr -> gen_variable_decl -> generate_expr is in it although generate_expr
    hands gen_variable_decl the expression (`expr or self.generate_expr(...)`), so that cycle is avoided if another exists."""
    if avoid:
        st, c = find_cycle(tab, avoid=())
        st2, c2 = _find_cycle(tab, {tab["ids"][a] for a in avoid if a in tab["ids"]})
        return (st2, c2) if c2 else (st, c)
    return _find_cycle(tab, set())


def _find_cycle(tab, avoid_ids):
    start = (tab["ids"][DISPATCHER], False)
    best = None
    frontier = [(start, [], False)]
    seen = {(start, False)}
    while frontier and best is None:
        nxt = []
        for node, path, incd in frontier:
            for j, s, n2 in _succ(tab, node):
                if n2[0] in avoid_ids:
                    continue
                inc2 = incd or s["off"] > 0
                p2 = path + [(j, n2)]
                if n2 == start and inc2:
                    best = p2
                    break
                if (n2, inc2) not in seen:
                    seen.add((n2, inc2))
                    nxt.append((n2, p2, inc2))
            if best is not None:
                break
        frontier = nxt
    return start, (best or [])


def find_path(tab, length=4):
    """a call stack from generate_main_func"""
    if "generate_main_func" not in tab["ids"]:
        return (0, False), [], (0, False)
    start = (tab["ids"]["generate_main_func"], False)
    node, path = start, []
    seen = {start}
    for _ in range(length):
        cands = sorted(_succ(tab, node), key=lambda x: (-x[1]["off"], x[0]))
        cands = [c for c in cands if c[2] not in seen] or cands
        if not cands:
            break
        j, s, n2 = cands[0]
        path.append((j, n2))
        seen.add(n2)
        node = n2
    return start, path, node


def _cnode(n):
    return "(%d, %s)" % (n[0], C.cbool(n[1]))


def _cpath(p):
    return C.clist(p, lambda x: "(%d, %s)" % (x[0], _cnode(x[1])))


def to_coq(tab):
    ids = tab["ids"]
    out = ["(* GENERATED by harness/gen2coq.py from /repo/src/generators/generator.py -- do not edit *)",
           "From Coq Require Import List Arith Bool String.", "Import ListNotations.", "Local Open Scope string_scope.",
           "From Heph Require Import IR.Scheme.", ""]
    names = []
    for e in tab["entries"]:
        sites = ["mkSite %d %d %s %d %d %d" % (ids[s["callee"]], s["off"], OLK[s["ol"]], s["disp"], s["bottom"], s["line"])
                 for s in e["sites"]]
        inside = sorted({ids[s["callee"]] for s in e["sites"] if s["off"] > 0})
        outside = sorted({ids[s["callee"]] for s in e["sites"] if s["off"] == 0})
        nm = "e_" + e["name"].replace(".", "_").lstrip("_")
        while nm in names:
            nm += "'"
        names.append(nm)
        out.append("Definition %s : entry := mkEntry %d %s %s %d %d %s %s %s\n  [%s]." % (
            nm, e["id"], C.cstring(e["name"]), C.cbool(e["inc"] > 0), e["inc"], e["leak"], C.cbool(e["leaf"]),
            C.clist(inside), C.clist(outside), ";\n   ".join(sites)))
    out.append("")
    out.append("Definition gen_table : table := %s." % C.clist(names))
    out.append("Definition id_dispatcher : nat := %d." % ids[DISPATCHER])
    st, path, last = find_path(tab)
    out.append("(* a call stack from generate_main_func: start, [(site index, callee node)], last node *)")
    out.append("Definition example_path : node * list (nat * node) * node := (%s, %s, %s)." % (_cnode(st), _cpath(path), _cnode(last)))
    cst, cyc = find_cycle(tab)
    out.append("(* a cycle through the dispatcher that is permitted at every depth and raises the depth ([] = none found) *)")
    out.append("Definition example_cycle : node * list (nat * node) := (%s, %s)." % (_cnode(cst), _cpath(cyc)))
    tab["example_path"] = [tab["entries"][st[0]]["name"]] + [tab["entries"][n[0]]["name"] for _, n in path]
    tab["example_cycle"] = [tab["entries"][cst[0]]["name"]] + [tab["entries"][n[0]]["name"] for _, n in cyc] if cyc else []
    out.append("")
    return "\n".join(out) + "\n"


def emit_generated(path=None, src=SRC):
    path = path or os.path.join(C.COQ, "Generated", "GenScheme.v")
    tab = extract(src)
    txt = to_coq(tab)
    old = open(path).read() if os.path.exists(path) else None
    if old != txt:
        open(path, "w").write(txt)
    return tab


if __name__ == "__main__":
    import json
    import sys
    t = extract(sys.argv[1] if len(sys.argv) > 1 else SRC)
    print(json.dumps(summary(t), indent=1))
    for e in t["entries"]:
        print(e["id"], e["name"], "inc", e["inc"], "leak", e["leak"], "leaf", e["leaf"])
        for s in e["sites"]:
            print("     -> %-32s off %d ol %s disp %d bottom %d line %d%s" % (s["callee"], s["off"], s["ol"], s["disp"], s["bottom"], s["line"],
                                                                         " (ref)" if s["indirect"] else ""))


# --------------------------------------------------------------------------- the table against the running generator

class Tracer:
    """Wraps (from outside, on the class, for the duration of a `with`) every method of Generator that has an entry
    in the table; logs each dynamic call edge between them with self.depth at entry of caller and callee and the
    only_leaves both run with, and compares with the static table:
      edge-not-in-table       the caller's entry has no site for the callee
      offset-differs          callee depth - caller depth is not the offset of a site for that callee (after
                              discounting what callees that ran before it in the same frame leaked)
      only-leaves-differs     no site of that offset binds only_leaves the way it was observed
      dispatch-branch-differs generate_expr at depth >= max_depth or with only_leaves called a generator that the
                              table offers in the full branch only
      depth-not-restored      a method returned at another depth than it was entered, the table says it restores it
                              and no callee of it leaked
    and measures the theorem scheme_call_depth_bounded on every frame (frames <= bound * (1 + listed + climbed))."""

    def __init__(self, tab, bound=None):
        self.tab = tab
        self.bound = bound
        self.names = [e["name"] for e in tab["entries"] if e["name"] != CONST]
        self.static = {}
        for e in tab["entries"]:
            for s in e["sites"]:
                self.static.setdefault((e["name"], s["callee"]), []).append(s)
        self.leaky = {e["name"] for e in tab["entries"] if e["leak"] > 0}
        self.stack = []
        self.edges = {}
        self.diffs = []
        self.calls = 0
        self.max_frames = 0
        self.max_depth_seen = 0
        self.leaks = {}
        self.bound_viol = []
        self.tightest = None
        self.beyond_max = {}
        self.label = None
        self.saved = {}

    def __enter__(self):
        import inspect
        from src.generators.generator import Generator
        from src.generators.config import cfg
        self.cfg = cfg
        for nm in self.names:
            orig = Generator.__dict__.get(nm)
            if orig is None:
                raise Unsupported("method %s of the table is not an attribute of the imported class" % nm)
            self.saved[nm] = orig
            setattr(Generator, nm, self._wrap(nm, orig, inspect.signature(orig)))
        return self

    def __exit__(self, *exc):
        from src.generators.generator import Generator
        for nm, orig in self.saved.items():
            setattr(Generator, nm, orig)
        self.saved = {}
        return False

    def diff(self, kind, **kw):
        if len(self.diffs) < 50:
            self.diffs.append(dict(kind=kind, program=self.label, **kw))

    def _wrap(self, nm, orig, sig):
        has_ol = OL in sig.parameters
        tr = self

        def wrapper(g, *a, **k):
            ol = None
            if has_ol:
                try:
                    ba = sig.bind(g, *a, **k)
                    ol = bool(ba.arguments[OL]) if OL in ba.arguments else bool(sig.parameters[OL].default)
                except TypeError:
                    ol = None
            d0 = g.depth
            fr = dict(name=nm, d0=d0, ol=ol, leaks={0}, leaked=0, listed=0, base=d0)
            tr.calls += 1
            if tr.stack:
                tr._edge(tr.stack[-1], fr)
            tr.stack.append(fr)
            n = len(tr.stack) - 1
            tr.max_frames = max(tr.max_frames, n)
            tr.max_depth_seen = max(tr.max_depth_seen, d0)
            if tr.bound is not None:
                root = tr.stack[0]
                allowed = tr.bound * (1 + fr["listed"] + max(0, d0 - root["d0"]))
                if tr.tightest is None or n * tr.tightest[1] > tr.tightest[0] * allowed:
                    tr.tightest = (n, allowed)
                if n > allowed and len(tr.bound_viol) < 5:
                    tr.bound_viol.append(dict(program=tr.label, frames=n, listed=fr["listed"], depth_root=root["d0"], depth=d0,
                                              allowed=allowed, stack=[f["name"] for f in tr.stack][-40:]))
            ok = False
            try:
                r = orig(g, *a, **k)
                ok = True
                return r
            finally:
                tr.stack.pop()
                net = g.depth - d0
                if ok and net != 0:
                    tr.leaks[nm] = tr.leaks.get(nm, 0) + 1
                    if nm not in tr.leaky and not fr["leaked"]:
                        tr.diff("depth-not-restored", method=nm, entered=d0, left=g.depth)
                    if tr.stack:
                        par = tr.stack[-1]
                        par["leaked"] += 1
                        par["leaks"] |= {x + net for x in par["leaks"]}
        wrapper.__name__ = nm
        return wrapper

    def _edge(self, caller, fr):
        key = (caller["name"], fr["name"])
        obs = fr["d0"] - caller["d0"]
        self.edges[key + (obs,)] = self.edges.get(key + (obs,), 0) + 1
        fr["listed"] = caller["listed"] + (1 if (obs == 0 and key in LISTED) else 0)
        sites = self.static.get(key)
        if not sites:
            self.diff("edge-not-in-table", caller=key[0], callee=key[1], offset=obs)
            return
        match = [s for s in sites if any(obs - x == s["off"] for x in caller["leaks"])]
        if not match:
            self.diff("offset-differs", caller=key[0], callee=key[1], offset=obs, table=sorted({s["off"] for s in sites}),
                      leaked_before=sorted(caller["leaks"]))
            return
        if fr["ol"] is not None:
            def ok(kd):
                return (kd in "AN" or (kd == "T" and fr["ol"] is True) or (kd == "F" and fr["ol"] is False)
                        or (kd == "P" and (caller["ol"] is None or caller["ol"] == fr["ol"])))
            if not any(ok(s["ol"]) for s in match):
                self.diff("only-leaves-differs", caller=key[0], callee=key[1], observed=fr["ol"], caller_only_leaves=caller["ol"],
                          table=sorted({s["ol"] for s in match}))
        if key[0] == DISPATCHER and all(s["disp"] != D_DIRECT for s in match):
            leafmode = caller["d0"] >= self.cfg.limits.max_depth or bool(caller["ol"])
            if leafmode:
                self.beyond_max[key[1]] = self.beyond_max.get(key[1], 0) + 1
                if all(s["disp"] == D_FULL for s in match):
                    self.diff("dispatch-branch-differs", callee=key[1], depth=caller["d0"], max_depth=self.cfg.limits.max_depth,
                              only_leaves=caller["ol"])

    def report(self):
        static_edges = set(self.static)
        seen = {(a, b) for (a, b, _) in self.edges}
        return dict(dynamic_calls=self.calls, dynamic_edges=sum(self.edges.values()), distinct_dynamic_edges=len(seen),
                    static_edges=len(static_edges), static_edges_never_observed=sorted("%s->%s" % e for e in static_edges - seen
                                                                                       if e[1] != CONST),
                    distinct_edge_offsets=len(self.edges), max_frames=self.max_frames, max_self_depth=self.max_depth_seen,
                    leaks_observed=self.leaks, dispatched_in_leaf_mode=self.beyond_max,
                    tightest_frames_vs_allowed=list(self.tightest) if self.tightest else None,
                    table_differences=len(self.diffs))


def all_cycles(tab, limit=40, maxlen=14):
    """simple cycles through the dispatcher that the table permits at every depth (see _succ), by names"""
    start = (tab["ids"][DISPATCHER], False)
    out = []

    def dfs(node, path, nodes, inc):
        if len(out) >= limit or len(path) >= maxlen:
            return
        for j, s, n2 in _succ(tab, node):
            inc2 = inc or s["off"] > 0
            if n2 == start:
                if inc2:
                    out.append([tab["entries"][start[0]]["name"]] + [tab["entries"][n[0]]["name"] + ("[only_leaves]" if n[1] else "")
                                                                      for n in path + [n2]])
            elif n2 not in nodes and n2[0] != start[0]:
                dfs(n2, path + [n2], nodes | {n2}, inc2)
    dfs(start, [], {start}, False)
    return sorted(out, key=len)
