"""C17 -- generation switches are honoured.

Proof part (coq/IR/Properties_C17.v): for every random draw the decision fragments that read
the switches obey them (get_type_arg_variance, the bound / variance / type-parameter draws of
gen_type_params and gen_func_decl); the absence predicates on programs are defined through
TypeOccurs (every type occurrence) and their boolean checkers are proved equivalent to them.
Regenerated from source on every run: Generated/Config.v -- what src/args.py makes of the
four flags (16 combinations, each obtained by running the real argument processing) -- with a
theorem over that table re-checked each time.
Ties: (a) direct driving of type_utils._get_type_arg_variance under scripted random choices
against the model; (b) for each of the 16 switch combinations x 4 languages x seeds the real
generator produces a program, it is serialised (harness/ir2coq.py, fail-closed) and the
kernel proves  Honoured switches program  through the proved checker.  "For all seeds" is
sampled: what is proved is the switch logic and, per explored program, the absence claim
over every type occurrence.
"""
import json
import os
import pickle
import random
import re
import time

import common as C
import tymodel as T
import ir2coq
import progs


def drive_variance(rng, n):
    """_get_type_arg_variance under a scripted random.choice"""
    from src.ir import type_utils as tu, types as tp
    from src.generators.config import cfg
    from src import utils
    V = {0: tp.Invariant, 1: tp.Covariant, 2: tp.Contravariant}
    cases = []
    saved = (cfg.dis.use_site_variance, cfg.dis.use_site_contravariance, utils.random.choice)
    try:
        for _ in range(n):
            du, dc = rng.random() < 0.4, rng.random() < 0.4
            pv = rng.choice([0, 1, 2])
            pick = rng.randint(0, 11)
            t_param = tp.TypeParameter("T", V[pv])
            mode = rng.choice(["none", "absent", "given"])
            if mode == "none":
                choices, cch = None, None
            elif mode == "absent":
                choices, cch = {}, (True, True)
            else:
                cch = (rng.random() < 0.5, rng.random() < 0.5)
                choices = {t_param: cch}
            inb = rng.random() < 0.3
            others = [tp.TypeParameter("U", bound=t_param if inb and rng.random() < 0.5 else None),
                      tp.TypeParameter("W")]
            if inb and others[0].bound is None:
                box = tp.TypeConstructor("Box", [tp.TypeParameter("X")])
                others[1] = tp.TypeParameter("W", bound=box.new([t_param]))
            cfg.dis.use_site_variance, cfg.dis.use_site_contravariance = du, dc
            utils.random.choice = lambda seq, pick=pick: list(seq)[pick % len(seq)]
            res = tu._get_type_arg_variance(t_param, choices, others)
            cases.append((du, dc, pv, cch, inb, pick, res.value))
    finally:
        cfg.dis.use_site_variance, cfg.dis.use_site_contravariance, utils.random.choice = saved
    return cases


def sw_record(flags, lang):
    return ("{| sw_no_use_site := %s; sw_no_contra := %s; sw_no_bounds := %s; sw_no_param_funcs := %s; "
            "sw_decl_variance_lang := %s |}" % (C.cbool(flags[0]), C.cbool(flags[0] or flags[1]), C.cbool(flags[2]),
                                               C.cbool(flags[3]), C.cbool(lang in ("kotlin", "scala"))))


def run(tier, seed, replay=None):
    rep = C.Report("C17", tier, seed, "proof")
    C.setup_repo_import(seed, ["hephaestus.py", "--iterations", "1", "--language", "kotlin"])
    rows = progs.config_table()
    progs.emit_config(rows)
    proof_ok = C.proof_part(rep, "IR/Properties_C17.v",
                            ["Generated/Config.vo", "IR/Syntax.vo", "IR/Switches.vo", "IR/SwitchProofs.vo", "IR/ConfigProofs.vo"],
                            ["IR", "Generated"])
    rng = random.Random(C.sub_seed(seed, "c17"))
    import src.args  # noqa: F401  (the generator reads cfg configured by args)

    # (a) direct driving of the variance decision
    dv = drive_variance(rng, 1500 if tier == "quick" else 30000)
    dv_items = []
    for du, dc, pv, cch, inb, pick, res in dv:
        ch = "None" if cch is None else "(Some (%s, %s))" % (C.cbool(cch[0]), C.cbool(cch[1]))
        dv_items.append("(%s, %s, %s, %s, %s, %d, %s)" % (C.cbool(du), C.cbool(dc), T.VAR[pv], ch, C.cbool(inb), pick, T.VAR[res]))
    hdr = (C.CASE_HEADER + "From Coq Require Import List Arith Bool.\nImport ListNotations.\n"
           "From Heph Require Import Types.Syntax IR.Syntax IR.Switches IR.SwitchProofs IR.Corr17.\n")
    files = [("c17v_0", hdr + "Definition cases : list vcase := [\n%s\n].\nEval vm_compute in (vmismatches 0 cases).\n"
              % ";\n".join(dv_items))]

    # (b) certificates for whole programs
    nseeds = 1 if tier == "quick" else 20
    plan = []
    for i in range(16):
        for lang in T.LANGS:
            for s in range(nseeds):
                plan.append((i, lang, C.sub_seed(seed, "c17prog", i, lang, s) % (2 ** 31)))
    langs = {l: T.Lang(l) for l in T.LANGS}
    programs = []
    gen_fail = []
    t_gen = time.time()
    for (i, lang, s) in plan:
        flags = [bool((i >> k) & 1) for k in range(4)]
        progs.set_cfg(rows[i])
        try:
            p = progs.generate(lang, s)
            ser = ir2coq.Ser(langs[lang], p)
            n = ser.prog()
        except Exception as e:              # noqa: BLE001
            gen_fail.append((i, lang, s, "%s: %s" % (type(e).__name__, e)))
            continue
        programs.append(dict(combo=i, flags=flags, lang=lang, seed=s, node=n, pickled=pickle.dumps(p),
                             nodes=ir2coq.node_count(n), types=ser.ntypes))
    progs.set_cfg(rows[0])
    t_gen = time.time() - t_gen
    per = 4
    for k in range(0, len(programs), per):
        body = []
        for j, pr in enumerate(programs[k:k + per]):
            body.append("Definition p%d : node := %s.\nDefinition s%d : switches := %s.\n" % (
                j, ir2coq.coq_node(pr["node"]), j, sw_record(pr["flags"], pr["lang"])))
        body.append("Eval vm_compute in [%s]." % "; ".join("verdict s%d p%d" % (j, j) for j in range(len(programs[k:k + per]))))
        files.append(("c17p_%d" % (k // per), hdr + "\n".join(body) + "\n"))
    C.clean_cases("c17")
    res = C.run_case_files(files, timeout=1500)
    # verdicts
    vm = []
    bad_prog = []
    for name, _ in files:
        rc, out = res[name]
        if rc != 0:
            rep.violation("case-file", "case file %s did not evaluate: %s" % (name, out[-600:]),
                          dict(broken=name, log=out[-3000:]), no_input=True)
            continue
        last = C.parse_eval_outputs(out)[-1]
        if name.startswith("c17v_"):
            vm = C.parse_nat_list(last)
        else:
            k = int(name.split("_")[1])
            codes = C.parse_nat_list(last)
            for j, c in enumerate(codes):
                if c != 0:
                    bad_prog.append((k * per + j, c))
    # kernel-checked theorems for the programs that pass
    good = [i for i in range(len(programs)) if i not in {b for b, _ in bad_prog}]
    cert_files = []
    for k in range(0, len(good), per):
        body = []
        for j, gi in enumerate(good[k:k + per]):
            pr = programs[gi]
            body.append("Definition p%d : node := %s.\nTheorem p%d_honoured : Honoured %s p%d.\n"
                        "Proof. apply chk_honoured_iff_l. vm_compute. reflexivity. Qed.\n" % (
                            j, ir2coq.coq_node(pr["node"]), j, sw_record(pr["flags"], pr["lang"]), j))
        cert_files.append(("c17c_%d" % (k // per), hdr + "\n".join(body)))
    res2 = C.run_case_files(cert_files, timeout=1500)
    certified = 0
    for (name, _), k in zip(cert_files, range(0, len(good), per)):
        rc, out = res2[name]
        if rc == 0:
            certified += len(good[k:k + per])
        else:
            rep.violation("certificate", "kernel did not accept the Honoured theorems of %s: %s" % (name, out[-400:]),
                          dict(broken=name, log=out[-2000:]), no_input=True)
    C.clean_cases("c17")

    WHAT = {1: "a use-site projection occurs although use-site variance is disabled",
            11: "a covariant bounded projection (the shape to_type_variable_free produces) occurs although use-site variance is disabled",
            2: "a contravariant projection occurs although use-site contravariance is disabled",
            3: "a bounded type parameter occurs although bounded type parameters are disabled",
            4: "a function declares type parameters although parameterized functions are disabled",
            5: "a class declares a variant type parameter in a language without declaration-site variance",
            6: "a function type parameter is variant"}
    os.makedirs(os.path.join(C.REPLAYS, "C17"), exist_ok=True)
    for gi, code in bad_prog:
        pr = programs[gi]
        binp = os.path.join(C.REPLAYS, "C17", "prog-%d-%s-%d.bin" % (pr["combo"], pr["lang"], pr["seed"]))
        open(binp, "wb").write(pr["pickled"])
        rep.violation("switch-tvf" if (code == 11 and not pr["flags"][2]) else "switch",
                      "%s, flags %s, seed %d: %s" % (pr["lang"], pr["flags"], pr["seed"], WHAT.get(code, code)),
                      dict(lang=pr["lang"], flags=pr["flags"], seed=pr["seed"], program_bin=binp, code=code,
                           shape="switch-tvf" if (code == 11 and not pr["flags"][2]) else "switch",
                           coq_term=ir2coq.coq_node(pr["node"])[:20000]))
    for i in vm:
        rep.violation("correspondence", "_get_type_arg_variance differs from the model on %s" % (dv[i],),
                      dict(case=dv[i], broken="correspondence IR.Switches.get_type_arg_variance vs type_utils._get_type_arg_variance"),
                      no_input=not bad_prog)
    for (i, lang, s, err) in gen_fail[:5]:
        rep.violation("serialise", "program (%d, %s, %d) could not be generated/serialised: %s" % (i, lang, s, err),
                      dict(combo=i, lang=lang, seed=s, error=err, broken="generator or ir2coq"), no_input=True)
    if not proof_ok and not rep.violations:
        rep.violation("proof", rep.proof_broken, dict(broken=rep.proof_broken), no_input=True)
    hist = {}
    for pr in programs:
        hist[pr["lang"]] = hist.get(pr["lang"], 0) + 1
    rep.add(evaluations=len(dv) + len(programs), variance_cases=len(dv), programs=len(programs),
            programs_certified_in_kernel=certified, distinct_nontrivial=len({(d[:6]) for d in dv}) + len(programs),
            disagreements_checked=len(vm) + len(bad_prog),
            rule="(a) random (switches, declared variance, variance_choices, in_bound, pick) tuples driven through the real "
                 "_get_type_arg_variance; (b) one (thorough: 20) program per switch combination x language from the real generator, "
                 "serialised node by node; every type occurrence of each program is covered by the kernel-checked Honoured theorem",
            traces_validated_against_impl=len(dv), type_occurrences=sum(p["types"] for p in programs),
            ast_nodes=sum(p["nodes"] for p in programs), generation_s=round(t_gen, 1), language_histogram=hist,
            config_table={str(k): v for k, v in rows.items()},
            samples=[dict(lang=p["lang"], flags=p["flags"], seed=p["seed"], nodes=p["nodes"], types=p["types"]) for p in programs[:3]],
            trusted_base=C.TRUSTED_BASE_COMMON + [
                "harness/ir2coq.py serialises ast.Program objects (fail-closed on unknown node or type classes)",
                "harness/progs.py obtains Generated/Config.v by running src/args.py on each flag combination"])
    rep.assumptions = ["'for all seeds' is sampled; per explored program the claim is kernel-checked over every type occurrence"]
    return rep.finish()
