"""C11 / C12 for the GROOVY translator: proof re-check + byte-exact correspondence.

What Coq carries (coq/IR/PrintGroovy.v, PrintGroovyProofs.v, Properties_C11_groovy.v,
Properties_C12_groovy.v): GroovyTranslator as state-passing Gallina functions over an explicit
translator object (14 components, the decorators append_to / change_namespace, _reset_state, the
second translator of construct_constructor), with the theorems: every visit restores every
scalar of the object, a translation (with its _reset_state) leaves the object initial, earlier
output is never read, the text does not depend on the history of the object; marks of the text =
inventory of the tree, (), {} and [] balanced, the exact `printed iff` equations for variable
types (def / inferred type), return types, diamonds and type arguments, headers of the
declarations; and the refutations (a declared type that is absent is printed nevertheless for
top-level variables and for every function that is not a closure; explicit type arguments of a
call are never printed; type parameters of closures are dropped).

run_part(rep, tier, seed, pid) -- pid "C11" or "C12" -- (a) re-checks the Properties file of that
property and (b) ties the model to src/translators/groovy.py: every text the real
GroovyTranslator produces on generated / erased / overwritten Groovy programs and on random
trees (fuzz_groovy.GFuzz) is compared inside Coq, byte for byte, with print_program of the
serialised program, for both values of the option cast_numbers.  For C11 the texts come from
translator histories (fresh object, same object twice, the driver's object through the three
stages with package reassignment, one long-lived object over all programs in random order with
package reassignment and Kotlin / Java / Scala translations of the same program object in
between, one history replayed on the model with the state threaded through) and the program is
snapshot (pickle) around every translation.  For C12 the same evaluation reports the hypotheses
of the theorems (wf, lex, clean), the balance of the REAL text for (), {}, [], the inventory
decision and the three counts of the refuted `printed iff` equations (c12_report).
Disagreements are reported through rep.violation; the coverage numbers are returned.
"""
import os
import pickle
import random
import re
import sys
import threading
import time

import common as C
import progs
import ir2print as P
import ir2print_groovy as PG
import fuzz_groovy as FG

FILES = ["IR/PrintGroovy.v", "IR/PrintGroovyProofs.v", "IR/Properties_C11_groovy.v", "IR/Properties_C12_groovy.v"]
DEPS = ["IR/PrintGroovy.vo", "IR/PrintGroovyProofs.vo"]


def opts(o):
    """what hephaestus.py passes (cli_args.options['Translator'])"""
    return {"cast_numbers": bool(o)}


class Obs:
    """everything observed for one program variant"""

    def __init__(self, vid, seed, stage, blob, opt):
        self.vid, self.lang, self.seed, self.stage, self.blob, self.opt = vid, "groovy", seed, stage, blob, opt
        self.texts = {}          # (pkg, cast_numbers) -> {text: [history labels]}
        self.obj = None
        self.term = None

    def see(self, pkg, opt, text, label):
        self.texts.setdefault((pkg, bool(opt)), {}).setdefault(text, []).append(label)

    def program(self):
        if self.obj is None:
            self.obj = pickle.loads(self.blob)
        return self.obj


def _ser(p):
    return PG.GSer(p).prog()


HISTORY_EXCEPTIONS = []


def translate_checked(utils, tr, p, mutated, label):
    """translate_program with a structural snapshot of the program before and after; an exception
    (none of the programs' first translations raised) is recorded and shows as a text of its own"""
    b0 = pickle.dumps(p)
    try:
        txt = utils.translate_program(tr, p)
    except Exception as e:      # noqa: BLE001
        HISTORY_EXCEPTIONS.append((label, "%s: %s" % (type(e).__name__, str(e)[:100])))
        tr._reset_state()
        txt = "<<exception %s>>" % type(e).__name__
    b1 = pickle.dumps(p)
    if b0 != b1:
        try:
            same = _ser(pickle.loads(b0)) == _ser(pickle.loads(b1))
        except Exception:       # noqa: BLE001
            same = None
        mutated.append(label + (same, b0))
    return txt


def stages_of(sd, TE, TO, utils, G, mutated, vid0, pkgs, opt, gen_timeout=10):
    """generate -> erase -> overwrite on ONE program object with ONE translator object, the
    package reassigned before the incorrect program: what hephaestus.gen_program does"""
    p = P.with_timeout(gen_timeout, progs.generate, "groovy", sd)
    tr = G(pkgs[0], opts(opt))
    out = []
    for stage in ("generated", "erased", "overwritten"):
        if stage == "erased":
            te = TE(p, "groovy", None, {"timeout": 600})
            te.transform()
            p = te.result()
        if stage == "overwritten":
            tr.package = pkgs[1]
            to = TO(p, "groovy", None, {"timeout": 600})
            to.transform()
            p = to.result()
        o = Obs(vid0 + len(out), sd, stage, pickle.dumps(p), opt)
        lab = "driver-object/%s" % stage
        o.see(tr.package, opt, translate_checked(utils, tr, p, mutated, (o.vid, lab)), lab)
        if stage == "overwritten":
            o.see(tr.package, opt, translate_checked(utils, tr, p, mutated, (o.vid, lab + "/again")), lab + "/again")
        out.append(o)
    return out


def proof_check(rep, pid):
    """re-check Properties_<pid>_groovy.v; returns check_properties_file's dict (+ forbidden)"""
    rel = "IR/Properties_%s_groovy.v" % pid
    hits = []
    for f in FILES:
        raw = open(os.path.join(C.COQ, f), encoding="utf-8", errors="replace").read()
        for m in C.FORBIDDEN.finditer(C.strip_coq_comments(raw)):
            hits.append("%s:%s" % (f, m.group(1)))
        for tok in ("Axiom", "Parameter", "Conjecture", "Admitted", "admit"):      # also inside comments
            if re.search(r"\b%s\b" % tok, raw):
                hits.append("%s:%s (raw)" % (f, tok))
    pr = C.check_properties_file(rel, DEPS)
    pr["forbidden_tokens"] = hits
    pr["non_closed"] = {k: v for k, v in pr["assumptions"].items() if not v.startswith("Closed under")}
    broken = None
    if hits:
        broken = "forbidden token(s) in the Groovy printer development: " + ", ".join(hits[:5])
    elif not pr["ok"]:
        broken = "proof obligation no longer checks: %s\n%s" % (pr["failed_dep"], pr["log"][-1500:])
    elif pr["non_closed"]:
        broken = "Print Assumptions is not closed for: " + ", ".join(sorted(pr["non_closed"]))
    elif len(pr["assumptions"]) != len(pr["obligations"]):
        broken = "%d theorems but %d Print Assumptions outputs in %s" % (len(pr["obligations"]), len(pr["assumptions"]), rel)
    pr["broken"] = broken
    return pr


FEATURES = [("}()", "block-called-as-closure"), ("Closure<", "typed-closure"), (" = { ", "closure"), ("Main.", "main-prefix"),
            ("Main::", "main-reference"), ("(null)::", "null-reference"), (" as Function", "function-cast"), ("super(", "super-call"),
            ("!instanceof", "negated-is"), (" instanceof ", "is"), ("<>(", "diamond"), ("...", "vararg"), ("? extends ", "covariant-projection"),
            ("? super ", "contravariant-projection"), ("(Long) ", "long-cast"), ("(Number) ", "number-cast"), ("(BigInteger) ", "biginteger-cast"),
            ("(Double) ", "double-cast"), ("(Float) ", "float-cast"), ("(Character) ", "char"), ("[0]", "empty-array"), ("[]{", "array"),
            (" implements ", "implements"), (" extends ", "extends"), ("interface ", "interface"), ("abstract ", "abstract"),
            ("final ", "final"), ("def ", "def"), (" ?\n", "conditional"), (".apply(", "reference-call"), ("public static ", "main")]

REPORT_FIELDS = ["text_equal", "wf", "lex", "clean", "balanced_parens_real_text", "balanced_braces_real_text",
                 "balanced_brackets_real_text", "inventory", "erased_return_types_printed", "erased_global_variable_types_printed",
                 "call_type_arguments_not_printed", "closure_type_parameters_not_printed"]


def parse_report(v):
    items = [x.strip() for x in v.split(" : ")[0].strip().strip("()").split(",")]
    return [x == "true" for x in items[:8]] + [int(x) for x in items[8:12]]


def run_part(rep, tier, seed, pid):
    assert pid in ("C11", "C12")
    t_all = time.time()
    if "src.args" not in sys.modules:
        C.setup_repo_import(seed, ["hephaestus.py", "--iterations", "1", "--language", "groovy"])
        import src.args  # noqa: F401
        progs.set_cfg(progs.config_table()[0])
    from src import utils
    from src.transformations.type_erasure import TypeErasure
    from src.transformations.type_overwriting import TypeOverwriting
    from src.translators.kotlin import KotlinTranslator
    from src.translators.java import JavaTranslator
    from src.translators.scala import ScalaTranslator
    from src.translators.groovy import GroovyTranslator as G
    OTHER = {"kotlin": KotlinTranslator, "java": JavaTranslator, "scala": ScalaTranslator}
    tag = "c11g" if pid == "C11" else "c12g"
    quick = tier == "quick"
    nprog = int(os.environ.get("VERIF_%s_GROOVY_N" % pid, ("4" if pid == "C11" else "6") if quick else "60"))
    nfuzz = int(os.environ.get("VERIF_%s_GROOVY_F" % pid, ("36" if pid == "C11" else "72") if quick else "1500"))
    budget = 9 if quick else 3600          # seconds of generation after which no further program is started
    rng = random.Random(C.sub_seed(seed, tag))
    mutated, crashes, gen_timeouts = [], [], []
    del HISTORY_EXCEPTIONS[:]

    # ------------------------------------------------------------------ (a) the theorems (in the background)
    proof = {}

    def prove():
        proof.update(proof_check(rep, pid))

    pth = threading.Thread(target=prove)
    pth.start()

    # ------------------------------------------------------------------ programs
    t0 = time.time()
    variants = []
    for s in range(nprog):
        if time.time() - t0 > budget and variants:
            break
        sd = C.sub_seed(seed, tag + "prog", "groovy", s) % (2 ** 31)
        try:
            variants.extend(stages_of(sd, TypeErasure, TypeOverwriting, utils, G, mutated, len(variants),
                                      ("src.a", "src.b") if pid == "C11" else ("src.pkg", "src.pkg"), s % 4 == 3))
        except P.GenTimeout:
            gen_timeouts.append(sd)
        except Exception as e:      # noqa: BLE001
            crashes.append((sd, "%s: %s" % (type(e).__name__, str(e)[:120])))
    t_gen = time.time() - t0
    ser_rejected = {}
    for o in variants:
        try:
            o.term = _ser(o.program())
        except P.SerError as e:
            crashes.append((o.seed, "serialiser: %s" % e))
            ser_rejected[str(e)[:40]] = ser_rejected.get(str(e)[:40], 0) + 1
    variants = [o for o in variants if o.term is not None]

    ntrans = len(variants) + len(variants) // 3
    other_fail, ser_changed, hist = {}, [], None
    long_lived = G("src.pkg", opts(False))
    nhist = 0
    rng_draws = None
    if pid == "C11":
        # -------------------------------------------------------------- histories on the implementation
        for o in variants:
            p = o.program()
            tr = G("src.pkg", opts(o.opt))
            st0 = utils.random.r.getstate()
            o.see("src.pkg", o.opt, translate_checked(utils, tr, p, mutated, (o.vid, "fresh")), "fresh")
            if rng_draws is None and utils.random.r.getstate() != st0:
                rng_draws = o
            o.see("src.pkg", o.opt, translate_checked(utils, tr, p, mutated, (o.vid, "same-object-twice")), "same-object-twice")
            ntrans += 2
        nhist += 2 * len(variants)
        seq = [rng.choice(variants) for _ in range(3 * len(variants))] if variants else []
        for step, o in enumerate(seq):
            p = o.program()
            if rng.random() < 0.3:
                long_lived.package = rng.choice(["src.pkg", "src.other", None])
            lab = "long-lived-object/step%d" % step
            if rng.random() < 0.35:
                for ol, OT in OTHER.items():
                    b0 = pickle.dumps(p)
                    try:
                        utils.translate_program(OT("src.pkg", opts(False)), p)
                    except Exception:       # noqa: BLE001  (a Groovy program given to another translator)
                        other_fail[ol] = other_fail.get(ol, 0) + 1
                    b1 = pickle.dumps(p)
                    if b1 != b0:
                        try:
                            same = _ser(pickle.loads(b0)) == _ser(pickle.loads(b1))
                        except Exception:       # noqa: BLE001
                            same = None
                        mutated.append((o.vid, "translated to %s" % ol, same, b0))
                lab += "/after-kotlin-java-scala"
            o.see(long_lived.package, False, translate_checked(utils, long_lived, p, mutated, (o.vid, lab)), lab)
            ntrans += 1
        nhist += 1 if seq else 0
        for o in variants:
            if _ser(o.program()) != o.term:
                ser_changed.append(o.vid)
        # one history replayed on the MODEL with the translator state threaded through
        if variants:
            hv = variants[:3]        # defined in the first case file
            hseq = [hv[i % len(hv)] for i in (0, 0, 1, 2, 0, 1, 2, 2)]
            hpk = ["src.pkg", "src.pkg", "src.a", "src.a", "", "src.b", "src.b", "src.pkg"]
            hopt = bool(C.sub_seed(seed, tag + "hopt") % 2)
            trh = G("src.pkg", opts(hopt))
            hexp = []
            for o, pk in zip(hseq, hpk):
                trh.package = pk or None
                hexp.append(translate_checked(utils, trh, o.program(), mutated, (o.vid, "model-history")))
                o.see(pk or None, hopt, hexp[-1], "model-history")
            hist = "Eval vm_compute in (history_mismatches %s %s %s).\n" % (
                P.cbool(hopt), C.clist(["(%s, v%d)" % (P.cstr(pk), o.vid) for o, pk in zip(hseq, hpk)]),
                C.clist([P.cstr(t) for t in hexp]))
            nhist += 1
            ntrans += len(hseq)

    # ------------------------------------------------------------------ directed stream (random trees)
    fuzz, fuzz_crash, outcome_changed = [], {}, []
    for s in range(nfuzz):
        frng = random.Random(C.sub_seed(seed, tag + "fuzz", s))
        p = FG.GFuzz(frng).program()
        opt = s % 3 == 0
        o = Obs(100000 + s, s, "directed", b"", opt)
        o.obj = p
        try:
            tr = G("src.pkg", opts(opt))
            t1 = utils.translate_program(tr, p)
        except Exception as e:      # noqa: BLE001  (malformed tree: the implementation raises)
            fuzz_crash[type(e).__name__] = fuzz_crash.get(type(e).__name__, 0) + 1
            continue
        try:
            o.term = _ser(p)
        except P.SerError as e:     # fail-closed: counted, not compared
            ser_rejected[str(e)[:40]] = ser_rejected.get(str(e)[:40], 0) + 1
            continue
        o.see("src.pkg", opt, t1, "fresh")
        if pid == "C11":
            for lab, trx, ox in (("same-object-twice", tr, opt), ("long-lived-object", long_lived, False)):
                if trx is long_lived and long_lived.package != "src.pkg":
                    continue
                try:
                    o.see("src.pkg", ox, utils.translate_program(trx, p), lab)
                except Exception as e:      # noqa: BLE001  the FIRST translation of this tree returned a text
                    outcome_changed.append((o, lab, "%s: %s" % (type(e).__name__, str(e)[:100])))
                    trx._reset_state()
                ntrans += 1
        ntrans += 1
        fuzz.append(o)

    # ------------------------------------------------------------------ Coq
    def text_of(o):
        return next(iter(o.texts[("src.pkg", o.opt)]))

    files, index = [], {}
    if pid == "C11":
        for prefix, vs, per in ((tag + "k", variants, 3), (tag + "f", fuzz, 12)):
            for k in range(0, len(vs), per):
                chunk = vs[k:k + per]
                name = "%s_%d" % (prefix, k // per)
                defs, cases, idx = [], [], []
                for o in chunk:
                    defs.append("Definition v%d : pprogram := %s.\n" % (o.vid, o.term))
                    for (pkg, opt), tx in o.texts.items():
                        for t in tx:
                            cases.append("(%s, %s, v%d, %s)" % (P.cbool(opt), P.cstr(pkg or ""), o.vid, P.cstr(t)))
                            idx.append((o, (pkg, opt), t))
                text = (PG.HEADER + "".join(defs) + "Definition cases : list (bool * string * pprogram * string) := [\n" +
                        ";\n".join(cases) + "\n].\nEval vm_compute in (mismatches 0 cases).\n")
                if prefix.endswith("k") and k == 0 and hist:
                    text += hist
                files.append((name, text))
                index[name] = idx
    else:
        for prefix, vs, per in ((tag + "k", variants, 3), (tag + "f", fuzz, 12)):
            for k in range(0, len(vs), per):
                chunk = vs[k:k + per]
                name = "%s_%d" % (prefix, k // per)
                files.append((name, PG.HEADER + "".join("Definition v%d : pprogram := %s.\n" % (o.vid, o.term) for o in chunk) +
                              "".join("Eval vm_compute in (c12_report %s \"src.pkg\" v%d %s).\n" % (P.cbool(o.opt), o.vid, P.cstr(text_of(o)))
                                      for o in chunk)))
                index[name] = chunk
    C.clean_cases(tag)
    tc = time.time()
    coq_res = C.run_case_files(files, timeout=1800)
    t_coq = time.time() - tc
    pth.join()

    # ------------------------------------------------------------------ verdicts
    os.makedirs(os.path.join(C.REPLAYS, pid), exist_ok=True)

    def save(o):
        path = os.path.join(C.REPLAYS, pid, "prog-groovy-%s-%s.bin" % (o.seed, o.stage))
        with open(path, "wb") as f:
            f.write(o.blob or pickle.dumps(o.obj))
        return path

    if proof.get("broken"):
        rep.violation("proof", "groovy: " + proof["broken"], dict(broken=proof["broken"], lang="groovy"), no_input=True)
    compared = mism = hist_viol = 0
    hist_ok = None
    cov = {}
    for o in variants + fuzz:
        for tx in o.texts.values():
            for t in tx:
                for needle, label in FEATURES:
                    if needle in t:
                        cov[label] = cov.get(label, 0) + 1
    stats = dict(compared=0, mismatches=0, wf=0, lex=0, clean=0, in_hypotheses=0, balanced_real_text=0, inventory_ok=0,
                 erased_return_types_printed=0, erased_global_variable_types_printed=0, call_type_arguments_not_printed=0,
                 closure_type_parameters_not_printed=0)
    fstats = dict(compared=0, mismatches=0, in_hypotheses=0, outside_hypotheses=0, closure_type_parameters_not_printed=0)
    if pid == "C11":
        for o in variants + fuzz:
            for (pkg, opt), tx in o.texts.items():
                if len(tx) > 1:
                    hist_viol += 1
                    texts = list(tx)
                    d = P.first_diff(texts[0], texts[1])
                    rep.violation("history", "groovy %s seed %s (%s, cast_numbers=%s): the text depends on the history of the translator "
                                  "object: %s vs %s, first difference at offset %d: %r / %r"
                                  % (o.stage, o.seed, pkg, opt, tx[texts[0]][:2], tx[texts[1]][:2], d,
                                     texts[0][max(0, d - 30):d + 30], texts[1][max(0, d - 30):d + 30]),
                                  dict(lang="groovy", seed=o.seed, stage=o.stage, program_bin=save(o), shape="groovy-history",
                                       histories={t[:40]: l for t, l in tx.items()}))
        byvid = {o.vid: o for o in variants + fuzz}
        nmut = {}
        for vid, lab, same, b0 in mutated:
            kind = "mutation-identity-only" if same else "mutation-structural"
            nmut[kind] = nmut.get(kind, 0) + 1
            if nmut[kind] > 3:
                continue
            path = os.path.join(C.REPLAYS, pid, "prog-groovy-before-%s-%s.bin" % (vid, abs(hash(lab)) % 100000))
            with open(path, "wb") as f:
                f.write(b0)
            rep.violation(kind, "groovy: translating modified the program object (pickle snapshot before/after differs; the serialised "
                          "structure is %s): variant %s, %s" % ("the same" if same else "DIFFERENT", vid, lab),
                          dict(variant=vid, history=lab, program_bin=path, lang="groovy", shape="groovy-" + kind))
        for vid in ser_changed[:5]:
            rep.violation("mutation", "groovy: the serialised program differs after the histories: variant %s" % vid,
                          dict(variant=vid, program_bin=save(byvid[vid]), lang="groovy", shape="groovy-mutation"))
        for lab, what in HISTORY_EXCEPTIONS[:3]:
            rep.violation("history-exception", "groovy: a translation along a history raised: variant %s, %s: %s" % (lab[0], lab[1], what),
                          dict(variant=lab[0], history=lab[1], exception=what, lang="groovy", shape="groovy-history-exception",
                               program_bin=save(byvid[lab[0]]) if lab[0] in byvid else None))
        if rng_draws is not None:
            o = rng_draws
            flaky = ""
            if outcome_changed:
                fo, flab, fwhat = outcome_changed[0]
                flaky = ("; on %d directed tree(s) of this run the OUTCOME depends on it: e.g. directed tree %s was translated to a text by a "
                         "fresh object and the next translation of the same tree (%s) raised %s inside get_types()"
                         % (len(outcome_changed), fo.seed, flab, fwhat))
                save(fo)
            rep.violation("groovy-translation-draws-random-numbers",
                          "groovy %s seed %s: GroovyTranslator.visit_program advances the generator's random number stream "
                          "(src.utils.random.r): it assigns self.types = node.get_types(), which instantiates every type constructor "
                          "with random type arguments, and no method that is ever called reads self.types "
                          "(_get_function_reference_signature is dead code).  The TEXT does not depend on it (theorems "
                          "groovy_history_independent / groovy_history_texts and the byte comparison), but translating a program "
                          "changes the programs generated afterwards%s" % (o.stage, o.seed, flaky),
                          dict(lang="groovy", seed=o.seed, stage=o.stage, program_bin=save(o),
                               outcome_changed=[(fo.seed, flab, fwhat) for fo, flab, fwhat in outcome_changed[:5]],
                               shape="groovy-translation-draws-random-numbers"))
    first = {}
    for name, _ in files:
        rc, out = coq_res[name]
        if rc != 0:
            rep.violation("case-file", "case file %s did not evaluate: %s" % (name, out[-400:]), dict(broken=name, log=out[-3000:]),
                          no_input=True)
            continue
        vals = C.parse_eval_outputs(out)
        if pid == "C11":
            bad = C.parse_nat_list(vals[0])
            compared += len(index[name])
            for i in bad:
                o, key, t = index[name][i]
                mism += 1
                rep.violation("correspondence", "groovy %s seed %s (%s): the text of the real GroovyTranslator (%s) is not the model's "
                              "print_program" % (o.stage, o.seed, key, o.texts[key][t][:3]),
                              dict(lang="groovy", seed=o.seed, stage=o.stage, program_bin=save(o), histories=o.texts[key][t][:5],
                                   broken="correspondence IR.PrintGroovy.print_program vs GroovyTranslator"),
                              no_input=len(o.texts[key]) == 1)
            if hist and name == tag + "k_0":
                val = vals[-1].split(" : ")[0].strip()
                hist_ok = val in ("([], true)", "(nil, true)")
                if not hist_ok:
                    rep.violation("correspondence", "groovy: the history replayed on the model (state threaded through 8 translations) "
                                  "gives %s, expected ([], true)" % val, dict(broken="history_mismatches", value=val, lang="groovy"),
                                  no_input=True)
            continue
        for o, v in zip(index[name], vals):
            eq, wf, lex, clean, bp, bb, bs, inv, n_ret, n_glob, n_targs, n_ctp = parse_report(v)
            directed = o.stage == "directed"
            St = fstats if directed else stats
            St["compared"] += 1
            compared += 1
            if not eq:
                St["mismatches"] += 1
                mism += 1
                rep.violation("correspondence", "groovy %s seed %s: the text of the real GroovyTranslator is not the model's print_program"
                              % (o.stage, o.seed),
                              dict(lang="groovy", seed=o.seed, stage=o.stage, program_bin=save(o),
                                   broken="correspondence IR.PrintGroovy.print_program vs GroovyTranslator"), no_input=True)
                continue
            hyp = wf and lex and clean
            if directed:
                fstats["in_hypotheses" if hyp else "outside_hypotheses"] += 1
                if n_ctp:
                    fstats["closure_type_parameters_not_printed"] += n_ctp
                    first.setdefault("ctp-directed", (o, n_ctp))
                if hyp and not (bp and bb and bs and inv):
                    rep.violation("theorem-vs-evaluation", "groovy directed tree %s: within the hypotheses but (balanced(), balanced{}, "
                                  "balanced[], inventory) = %s" % (o.seed, (bp, bb, bs, inv)),
                                  dict(seed=o.seed, value=[bp, bb, bs, inv], program_bin=save(o), lang="groovy"), no_input=True)
                continue
            stats["wf"] += wf
            stats["lex"] += lex
            stats["clean"] += clean
            stats["in_hypotheses"] += hyp
            stats["balanced_real_text"] += (bp and bb and bs)
            stats["inventory_ok"] += inv
            stats["erased_return_types_printed"] += n_ret
            stats["erased_global_variable_types_printed"] += n_glob
            stats["call_type_arguments_not_printed"] += n_targs
            stats["closure_type_parameters_not_printed"] += n_ctp
            for key, n in (("ret", n_ret), ("glob", n_glob), ("targs", n_targs), ("ctp", n_ctp)):
                if n and key not in first:
                    first[key] = (o, n)
            if not wf:
                rep.violation("hypothesis", "groovy %s seed %s: the program does not have the node shape the theorems assume (wf = false)"
                              % (o.stage, o.seed), dict(lang="groovy", seed=o.seed, stage=o.stage, program_bin=save(o), shape="groovy-not-wf"))
            if hyp and not (bp and bb and bs):
                rep.violation("balance", "groovy %s seed %s: brackets of the real text are not balanced: () %s, {} %s, [] %s"
                              % (o.stage, o.seed, bp, bb, bs),
                              dict(lang="groovy", seed=o.seed, stage=o.stage, program_bin=save(o), shape="groovy-unbalanced-text"))
            if wf and lex and not inv:
                rep.violation("inventory", "groovy %s seed %s: the marked pieces of the text are not the inventory of the program"
                              % (o.stage, o.seed), dict(lang="groovy", seed=o.seed, stage=o.stage, program_bin=save(o), shape="groovy-inventory"))
    if pid == "C12":
        if "ret" in first:
            o, n = first["ret"]
            rep.violation("groovy-erased-return-type-printed",
                          "groovy %s seed %s: %d function declaration(s) of the program carry no declared return type (ret_type is None) and "
                          "GroovyTranslator.visit_func_decl prints one nevertheless: for every function that is not a closure (methods, "
                          "top-level functions) the text is `<inferred type> name(..)` whatever ret_type is, so erasing a return type is "
                          "invisible in Groovy text (theorems groovy_ret_type_not_an_input, groovy_ret_type_printed_iff_present_refuted); "
                          "%d such declarations in the programs of this run" % (o.stage, o.seed, n, stats["erased_return_types_printed"]),
                          dict(lang="groovy", seed=o.seed, stage=o.stage, program_bin=save(o), count=stats["erased_return_types_printed"],
                               shape="groovy-erased-return-type-printed"))
        if "glob" in first:
            o, n = first["glob"]
            rep.violation("groovy-erased-global-variable-type-printed",
                          "groovy %s seed %s: %d top-level variable(s) of the program carry no declared type (var_type is None) and "
                          "GroovyTranslator.visit_var_decl prints the inferred type nevertheless (they become static fields of Main; a "
                          "local variable without declared type is printed with `def`): theorems groovy_var_type_text, "
                          "groovy_var_type_printed_iff_present_refuted; %d such variables in the programs of this run"
                          % (o.stage, o.seed, n, stats["erased_global_variable_types_printed"]),
                          dict(lang="groovy", seed=o.seed, stage=o.stage, program_bin=save(o),
                               count=stats["erased_global_variable_types_printed"], shape="groovy-erased-global-variable-type-printed"))
        if "targs" in first:
            o, n = first["targs"]
            rep.violation("groovy-call-type-arguments-not-printed",
                          "groovy %s seed %s: %d call(s) of the program carry explicit type arguments that are not inferable "
                          "(can_infer_type_args is False) and GroovyTranslator.visit_func_call never prints type arguments (theorem "
                          "groovy_call_type_args_never_printed_refuted); %d such calls in the programs of this run"
                          % (o.stage, o.seed, n, stats["call_type_arguments_not_printed"]),
                          dict(lang="groovy", seed=o.seed, stage=o.stage, program_bin=save(o),
                               count=stats["call_type_arguments_not_printed"], shape="groovy-call-type-arguments-not-printed"))
        for key in ("ctp", "ctp-directed"):
            if key in first:
                o, n = first[key]
                rep.violation("groovy-closure-type-parameters-not-printed",
                              "groovy %s %s: %d type parameter(s) of function(s) declared inside a function or block: "
                              "GroovyTranslator.visit_func_decl prints such a function as a closure (`def g = { .. -> .. }`) and drops its "
                              "type parameters (theorems groovy_closure_text, groovy_closure_type_parameters_not_printed_refuted)%s"
                              % ("directed tree" if key == "ctp-directed" else o.stage + " seed", o.seed, n,
                                 "; the generator gives nested functions no type parameters (generator.py gen_func_decl), so only "
                                 "directed trees show it" if key == "ctp-directed" else ""),
                              dict(lang="groovy", seed=o.seed, stage=o.stage, program_bin=save(o),
                                   shape="groovy-closure-type-parameters-not-printed"))
                break
    C.clean_cases(tag)
    res = dict(proof=dict(ok=proof.get("ok"), obligations=proof.get("obligations"), discharged=proof.get("discharged"),
                          assumptions=proof.get("assumptions"), cmd=proof.get("cmd"), forbidden_tokens=proof.get("forbidden_tokens"),
                          non_closed=proof.get("non_closed"), broken=proof.get("broken")),
               obligations=proof.get("obligations", []), discharged=proof.get("discharged", []),
               print_assumptions=proof.get("assumptions", {}),
               programs=len(variants), directed_trees=len(fuzz), directed_trees_rejected_by_impl=fuzz_crash,
               rejected_by_serialiser=ser_rejected,
               texts_compared=compared, mismatches=mism, histories=nhist, groovy_translations=ntrans,
               history_dependent_variants=hist_viol, model_history_replayed=hist_ok,
               program_snapshots_changed=len(mutated) + len(ser_changed),
               translation_draws_random_numbers=(rng_draws is not None) if pid == "C11" else None,
               directed_trees_whose_outcome_changed_with_the_random_state=len(outcome_changed),
               exceptions_along_histories=len(HISTORY_EXCEPTIONS),
               other_translator_failures_on_groovy_programs=other_fail,
               generation_abandoned_after_10s=gen_timeouts, exceptions=len(crashes), exception_samples=[list(c) for c in crashes[:5]],
               text_features_seen=cov, generation_s=round(t_gen, 1), coq_s=round(t_coq, 1), wall_s=round(time.time() - t_all, 1),
               rule="Groovy programs (generated / erased / overwritten, one object through the stages as hephaestus.gen_program does) "
                    "and random trees, both values of cast_numbers; every distinct text compared with IR.PrintGroovy.print_program "
                    "inside Coq (vm_compute)",
               trusted_base=["harness/ir2print_groovy.py serialiser (fail-closed); the three context queries of GroovyTranslator "
                             "(_get_main_prefix for vars / funcs, interface classes) and the type computations get_signature / box_type "
                             "/ get_name / is_primitive are evaluated by the real code at serialisation time (on a copy of the program) "
                             "and enter the model as tables / attributes",
                             "byte strings: lstrip / \\s of the model act on ASCII white space (other white space is rejected)"])
    if pid == "C12":
        res.update(groovy=stats, directed=fstats)
    return res
