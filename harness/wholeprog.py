"""Shared by C01/C05/C03/C04/C18: serialise programs for the reference checker (coq/IR/Check.v)."""
import os

import common as C
import tymodel as T
import ir2coq


def lang_record(L):
    f = L.factory
    b = lambda t: L.bid[type(t)]       # noqa: E731
    nums = sorted({b(t) for t in f.get_number_types()})
    return ("{| l_bool := %d; l_any := %d; l_unit := %d; l_string := %d; l_char := %d; l_numbers := %s; l_java_lambda := %s |}"
            % (b(f.get_boolean_type()), b(f.get_any_type()), b(f.get_void_type()), b(f.get_string_type()),
               b(f.get_char_type()), C.clist(nums), C.cbool(L.lang == "java")))


def reserved(lang):
    from src import utils
    return utils.get_reserved_words(utils.RandomUtils.resource_path, lang)


def program_defs(L, program, idx):
    """Coq definitions  p<idx>, cn<idx>, kw<idx>  for one program; returns (text, serialiser, node)"""
    ser = ir2coq.Ser(L, program)
    n = ser.prog()
    cn = [(ser.nid(name), cid) for name, cid in ser.classes.items()]
    rw = reserved(L.lang)
    kw = [i for s, i in ser.names.items() if s in rw]
    txt = ("Definition p%d : node := %s.\nDefinition cn%d : list (nat * nat) := %s.\nDefinition kw%d : list nat := %s.\n"
           % (idx, ir2coq.coq_node(n), idx, C.clist(cn, lambda p: "(%d, %d)" % p), idx, C.clist(kw)))
    return txt, ser, n


def check_call(lang, idx):
    return "check_program INFER STRICT L_%s cn%d bclasses_%s bt_%s array_%s kw%d p%d" % (lang, idx, lang, lang, lang, idx, idx)


HDR = (C.CASE_HEADER + "From Coq Require Import List Arith Bool.\nImport ListNotations.\n"
       "From Heph Require Import Types.Syntax Types.Subst Types.Subtype Types.Decl IR.Syntax IR.Check Generated.Builtins.\n")


def node_at(n, path):
    for i in path:
        if i >= len(n[5]):
            return None
        n = n[5][i]
    return n
