"""Entry point: ./check Cxx [--tier quick|thorough] [--replay f]"""
import argparse
import importlib
import os
import sys
import traceback

sys.path.insert(0, os.path.dirname(os.path.abspath(__file__)))
import common as C  # noqa: E402


def main():
    ap = argparse.ArgumentParser()
    ap.add_argument("prop")
    ap.add_argument("--tier", default=os.environ.get("VERIF_TIER", "quick"),
                    choices=["quick", "thorough"])
    ap.add_argument("--replay", default=None)
    a = ap.parse_args()
    pid = a.prop.upper()
    seed = C.seed_from_env()
    try:
        mod = importlib.import_module(pid.lower())
    except ModuleNotFoundError:
        print("no check for %s" % pid)
        return 2
    try:
        return mod.run(a.tier, seed, a.replay)
    except SystemExit:
        raise
    except Exception:
        # the check itself broke: that is not a verdict about the property; exit 2
        traceback.print_exc()
        print("CHECK-ERROR property=%s (harness failure, not a verdict)" % pid)
        return 2


if __name__ == "__main__":
    sys.exit(main())
