"""C11 / C12 for the SCALA translator: proof re-check + byte-exact correspondence.

What Coq carries (coq/IR/PrintScala.v, PrintScalaProofs.v, Properties_C11_scala.v,
Properties_C12_scala.v): ScalaTranslator as state-passing Gallina functions over an explicit
translator object, with the same theorems as the Kotlin model (IR/PrintKotlin.v): every visit
pushes one result and restores the object (ident: restored or 0), a translation leaves the object
initial, the text does not depend on the history of the object; marks of the text = inventory
of the tree, (), {} and [] balanced, ': T' / type arguments printed iff present / not inferable,
headers of the declarations; and two refutations (`!is` is printed as `is`).

run_part(rep, tier, seed, pid) -- pid "C11" or "C12" -- (a) re-checks the Properties file of that
property and (b) ties the model to src/translators/scala.py: every text the real ScalaTranslator
produces on generated / erased / overwritten Scala programs and on random trees
(ir2print_scala.FuzzScala) is compared inside Coq, byte for byte, with print_program of the
serialised program.  For C11 the texts come from translator histories (fresh object, same object
twice, the driver's object through the three stages with package reassignment, one long-lived
object over all programs in random order with package reassignment and Kotlin / Java / Groovy
translations of the same program object in between, one history replayed on the model with the
state threaded through) and the program is snapshot (pickle) around every translation.  For C12
the same evaluation reports the hypotheses of the theorems (wf, clean), the balance of the REAL
text for (), {}, [] and the two inventory decisions (c12_report).
Disagreements are reported through rep.violation; the coverage numbers are returned.
"""
import os
import pickle
import random
import sys
import threading
import time

import common as C
import progs
import ir2print as P
import ir2print_scala as PS

OPTS = {"cast_numbers": False}      # what hephaestus.py passes (cli_args.options['Translator']); ScalaTranslator ignores it
FILES = ["IR/PrintScala.v", "IR/PrintScalaProofs.v", "IR/Properties_C11_scala.v", "IR/Properties_C12_scala.v"]
DEPS = ["IR/PrintScala.vo", "IR/PrintScalaProofs.vo"]


class Obs:
    """everything observed for one program variant"""

    def __init__(self, vid, seed, stage, blob):
        self.vid, self.lang, self.seed, self.stage, self.blob = vid, "scala", seed, stage, blob
        self.texts = {}          # pkg -> {text: [history labels]}
        self.obj = None
        self.term = None

    def see(self, pkg, text, label):
        self.texts.setdefault(pkg, {}).setdefault(text, []).append(label)

    def program(self):
        if self.obj is None:
            self.obj = pickle.loads(self.blob)
        return self.obj


def _ser(p):
    return PS.PSerScala(p).prog()


def translate_checked(utils, tr, p, mutated, label):
    """translate_program with a structural snapshot of the program before and after"""
    b0 = pickle.dumps(p)
    txt = utils.translate_program(tr, p)
    b1 = pickle.dumps(p)
    if b0 != b1:
        try:
            same = _ser(pickle.loads(b0)) == _ser(pickle.loads(b1))
        except Exception:       # noqa: BLE001
            same = None
        mutated.append(label + (same, b0))
    return txt


def stages_of(sd, TE, TO, utils, S, mutated, vid0, pkgs, gen_timeout=10):
    """generate -> erase -> overwrite on ONE program object with ONE translator object, the
    package reassigned before the incorrect program: what hephaestus.gen_program does"""
    p = P.with_timeout(gen_timeout, progs.generate, "scala", sd)
    tr = S(pkgs[0], OPTS)
    out = []
    for stage in ("generated", "erased", "overwritten"):
        if stage == "erased":
            te = TE(p, "scala", None, {"timeout": 600})
            te.transform()
            p = te.result()
        if stage == "overwritten":
            tr.package = pkgs[1]
            to = TO(p, "scala", None, {"timeout": 600})
            to.transform()
            p = to.result()
        o = Obs(vid0 + len(out), sd, stage, pickle.dumps(p))
        lab = "driver-object/%s" % stage
        o.see(tr.package, translate_checked(utils, tr, p, mutated, (o.vid, lab)), lab)
        if stage == "overwritten":
            o.see(tr.package, translate_checked(utils, tr, p, mutated, (o.vid, lab + "/again")), lab + "/again")
        out.append(o)
    return out


def proof_check(rep, pid):
    """re-check Properties_<pid>_scala.v; returns check_properties_file's dict (+ forbidden)"""
    rel = "IR/Properties_%s_scala.v" % pid
    hits = []
    for f in FILES:
        raw = open(os.path.join(C.COQ, f), encoding="utf-8", errors="replace").read()
        for m in C.FORBIDDEN.finditer(C.strip_coq_comments(raw)):
            hits.append("%s:%s" % (f, m.group(1)))
        for tok in ("Axiom", "Parameter", "Conjecture", "Admitted", "admit"):      # also inside comments
            if __import__("re").search(r"\b%s\b" % tok, raw):
                hits.append("%s:%s (raw)" % (f, tok))
    pr = C.check_properties_file(rel, DEPS)
    pr["forbidden_tokens"] = hits
    pr["non_closed"] = {k: v for k, v in pr["assumptions"].items() if not v.startswith("Closed under")}
    broken = None
    if hits:
        broken = "forbidden token(s) in the Scala printer development: " + ", ".join(hits[:5])
    elif not pr["ok"]:
        broken = "proof obligation no longer checks: %s\n%s" % (pr["failed_dep"], pr["log"][-1500:])
    elif pr["non_closed"]:
        broken = "Print Assumptions is not closed for: " + ", ".join(sorted(pr["non_closed"]))
    elif len(pr["assumptions"]) != len(pr["obligations"]):
        broken = "%d theorems but %d Print Assumptions outputs in %s" % (len(pr["obligations"]), len(pr["assumptions"]), rel)
    pr["broken"] = broken
    return pr


FEATURES = [("val _y = ", "reference-in-unit-block"), ("1.asInstanceOf[Any]", "new-any"), ("]().asInstanceOf[Array[", "empty-array-of-type-variables"),
            (").asInstanceOf[Array[", "array-of-type-variable"), (".isInstanceOf[", "is"), (" _)", "parenthesised-reference"),
            ("*", "vararg-or-star"), ("? <: ", "covariant-projection"), ("? >: ", "contravariant-projection"), ("new ", "new"),
            ("override ", "override"), ("final def", "final-method"), (" extends ", "extends"), ("trait ", "trait"), (" => ", "lambda"),
            (".asInstanceOf[Number]", "number-cast"), ("???.asInstanceOf[", "typed-bottom"), (" then\n", "conditional")]


def run_part(rep, tier, seed, pid):
    assert pid in ("C11", "C12")
    t_all = time.time()
    if "src.args" not in sys.modules:
        C.setup_repo_import(seed, ["hephaestus.py", "--iterations", "1", "--language", "scala"])
        import src.args  # noqa: F401
        progs.set_cfg(progs.config_table()[0])
    from src import utils
    from src.transformations.type_erasure import TypeErasure
    from src.transformations.type_overwriting import TypeOverwriting
    from src.translators.kotlin import KotlinTranslator
    from src.translators.java import JavaTranslator
    from src.translators.groovy import GroovyTranslator
    from src.translators.scala import ScalaTranslator as S
    OTHER = {"kotlin": KotlinTranslator, "java": JavaTranslator, "groovy": GroovyTranslator}
    tag = "c11s" if pid == "C11" else "c12s"
    quick = tier == "quick"
    nprog = int(os.environ.get("VERIF_%s_SCALA_N" % pid, "4" if quick else "60"))
    nfuzz = int(os.environ.get("VERIF_%s_SCALA_F" % pid, "40" if quick else "1500"))
    budget = 11 if quick else 3600          # seconds of generation after which no further program is started
    rng = random.Random(C.sub_seed(seed, tag))
    mutated, crashes, gen_timeouts = [], [], []

    # ------------------------------------------------------------------ (a) the theorems (in the background)
    proof = {}

    def prove():
        proof.update(proof_check(rep, pid))

    pth = threading.Thread(target=prove)
    pth.start()

    # ------------------------------------------------------------------ programs
    t0 = time.time()
    variants = []
    for s in range(nprog):
        if time.time() - t0 > budget and variants:
            break
        sd = C.sub_seed(seed, tag + "prog", "scala", s) % (2 ** 31)
        try:
            variants.extend(stages_of(sd, TypeErasure, TypeOverwriting, utils, S, mutated, len(variants),
                                      ("src.a", "src.b") if pid == "C11" else ("src.pkg", "src.pkg")))
        except P.GenTimeout:
            gen_timeouts.append(sd)
        except Exception as e:      # noqa: BLE001
            crashes.append((sd, "%s: %s" % (type(e).__name__, str(e)[:120])))
    t_gen = time.time() - t0
    for o in variants:
        try:
            o.term = _ser(o.program())
        except P.SerError as e:
            crashes.append((o.seed, "serialiser: %s" % e))
    variants = [o for o in variants if o.term is not None]

    ntrans = len(variants) + len(variants) // 3
    other_fail, ser_changed, hist = {}, [], None
    long_lived = S("src.pkg", OPTS)
    nhist = 0
    if pid == "C11":
        # -------------------------------------------------------------- histories on the implementation
        for o in variants:
            p = o.program()
            tr = S("src.pkg", OPTS)
            o.see("src.pkg", translate_checked(utils, tr, p, mutated, (o.vid, "fresh")), "fresh")
            o.see("src.pkg", translate_checked(utils, tr, p, mutated, (o.vid, "same-object-twice")), "same-object-twice")
            ntrans += 2
        nhist += 2 * len(variants)
        seq = [rng.choice(variants) for _ in range(3 * len(variants))] if variants else []
        for step, o in enumerate(seq):
            p = o.program()
            if rng.random() < 0.3:
                long_lived.package = rng.choice(["src.pkg", "src.other", None])
            lab = "long-lived-object/step%d" % step
            if rng.random() < 0.35:
                for ol, OT in OTHER.items():
                    b0 = pickle.dumps(p)
                    try:
                        utils.translate_program(OT("src.pkg", OPTS), p)
                    except Exception:       # noqa: BLE001  (a Scala program given to another translator)
                        other_fail[ol] = other_fail.get(ol, 0) + 1
                    b1 = pickle.dumps(p)
                    if b1 != b0:
                        try:
                            same = _ser(pickle.loads(b0)) == _ser(pickle.loads(b1))
                        except Exception:       # noqa: BLE001
                            same = None
                        mutated.append((o.vid, "translated to %s" % ol, same, b0))
                lab += "/after-kotlin-java-groovy"
            o.see(long_lived.package, translate_checked(utils, long_lived, p, mutated, (o.vid, lab)), lab)
            ntrans += 1
        nhist += 1 if seq else 0
        for o in variants:
            if _ser(o.program()) != o.term:
                ser_changed.append(o.vid)
        # one history replayed on the MODEL with the translator state threaded through
        if variants:
            hv = variants[:3]        # defined in the first case file
            hseq = [hv[i % len(hv)] for i in (0, 0, 1, 2, 0, 1, 2, 2)]
            hpk = ["src.pkg", "src.pkg", "src.a", "src.a", "", "src.b", "src.b", "src.pkg"]
            trh = S("src.pkg", OPTS)
            hexp = []
            for o, pk in zip(hseq, hpk):
                trh.package = pk or None
                hexp.append(translate_checked(utils, trh, o.program(), mutated, (o.vid, "model-history")))
                o.see(pk or None, hexp[-1], "model-history")
            hist = "Eval vm_compute in (history_mismatches %s %s).\n" % (
                C.clist(["(%s, v%d)" % (P.cstr(pk), o.vid) for o, pk in zip(hseq, hpk)]), C.clist([P.cstr(t) for t in hexp]))
            nhist += 1
            ntrans += len(hseq)

    # ------------------------------------------------------------------ directed stream (random trees)
    fuzz, fuzz_crash = [], {}
    for s in range(nfuzz):
        frng = random.Random(C.sub_seed(seed, tag + "fuzz", s))
        p = PS.FuzzScala(frng).program()
        o = Obs(100000 + s, s, "directed", b"")
        o.obj = p
        try:
            tr = S("src.pkg", OPTS)
            t1 = utils.translate_program(tr, p)
        except Exception as e:      # noqa: BLE001  (malformed tree: the implementation raises)
            fuzz_crash[type(e).__name__] = fuzz_crash.get(type(e).__name__, 0) + 1
            continue
        o.term = _ser(p)
        o.see("src.pkg", t1, "fresh")
        if pid == "C11":
            o.see("src.pkg", utils.translate_program(tr, p), "same-object-twice")
            o.see("src.pkg", utils.translate_program(long_lived, p) if long_lived.package == "src.pkg" else t1, "long-lived-object")
            ntrans += 2
        ntrans += 1
        fuzz.append(o)

    # ------------------------------------------------------------------ Coq
    def text_of(o):
        return next(iter(o.texts["src.pkg"]))

    files, index = [], {}
    if pid == "C11":
        for prefix, vs, per in ((tag + "k", variants, 3), (tag + "f", fuzz, 20)):
            for k in range(0, len(vs), per):
                chunk = vs[k:k + per]
                name = "%s_%d" % (prefix, k // per)
                defs, cases, idx = [], [], []
                for o in chunk:
                    defs.append("Definition v%d : pprogram := %s.\n" % (o.vid, o.term))
                    for pkg, tx in o.texts.items():
                        for t in tx:
                            cases.append("(%s, v%d, %s)" % (P.cstr(pkg or ""), o.vid, P.cstr(t)))
                            idx.append((o, pkg, t))
                text = (PS.HEADER + "".join(defs) + "Definition cases : list (string * pprogram * string) := [\n" +
                        ";\n".join(cases) + "\n].\nEval vm_compute in (mismatches 0 cases).\n")
                if prefix.endswith("k") and k == 0 and hist:
                    text += hist
                files.append((name, text))
                index[name] = idx
    else:
        for prefix, vs, per in ((tag + "k", variants, 3), (tag + "f", fuzz, 20)):
            for k in range(0, len(vs), per):
                chunk = vs[k:k + per]
                name = "%s_%d" % (prefix, k // per)
                files.append((name, PS.HEADER + "".join("Definition v%d : pprogram := %s.\n" % (o.vid, o.term) for o in chunk) +
                              "".join("Eval vm_compute in (c12_report \"src.pkg\" v%d %s).\n" % (o.vid, P.cstr(text_of(o))) for o in chunk)))
                index[name] = chunk
    C.clean_cases(tag)
    tc = time.time()
    coq_res = C.run_case_files(files, timeout=1800)
    t_coq = time.time() - tc
    pth.join()

    # ------------------------------------------------------------------ verdicts
    os.makedirs(os.path.join(C.REPLAYS, pid), exist_ok=True)

    def save(o):
        path = os.path.join(C.REPLAYS, pid, "prog-scala-%s-%s.bin" % (o.seed, o.stage))
        with open(path, "wb") as f:
            f.write(o.blob or pickle.dumps(o.obj))
        return path

    if proof.get("broken"):
        rep.violation("proof", "scala: " + proof["broken"], dict(broken=proof["broken"], lang="scala"), no_input=True)
    compared = mism = hist_viol = 0
    hist_ok = None
    cov = {}
    for o in variants + fuzz:
        for tx in o.texts.values():
            for t in tx:
                for needle, label in FEATURES:
                    if needle in t:
                        cov[label] = cov.get(label, 0) + 1
    stats = dict(compared=0, mismatches=0, wf=0, clean=0, in_hypotheses=0, balanced_real_text=0, inventory_ok=0, full_inventory_ok=0)
    fstats = dict(compared=0, mismatches=0, in_hypotheses=0, outside_hypotheses=0, full_inventory_fails=0)
    if pid == "C11":
        for o in variants + fuzz:
            for pkg, tx in o.texts.items():
                if len(tx) > 1:
                    hist_viol += 1
                    texts = list(tx)
                    d = P.first_diff(texts[0], texts[1])
                    rep.violation("history", "scala %s seed %s (%s): the text depends on the history of the translator object: %s vs %s, "
                                  "first difference at offset %d: %r / %r" % (o.stage, o.seed, pkg, tx[texts[0]][:2], tx[texts[1]][:2], d,
                                                                           texts[0][max(0, d - 30):d + 30], texts[1][max(0, d - 30):d + 30]),
                                  dict(lang="scala", seed=o.seed, stage=o.stage, program_bin=save(o), histories={t[:40]: l for t, l in tx.items()}))
        byvid = {o.vid: o for o in variants + fuzz}
        nmut = {}
        for vid, lab, same, b0 in mutated:
            kind = "mutation-identity-only" if same else "mutation-structural"
            nmut[kind] = nmut.get(kind, 0) + 1
            if nmut[kind] > 3:
                continue
            path = os.path.join(C.REPLAYS, pid, "prog-scala-before-%s-%s.bin" % (vid, abs(hash(lab)) % 100000))
            with open(path, "wb") as f:
                f.write(b0)
            rep.violation(kind, "scala: translating modified the program object (pickle snapshot before/after differs; the serialised "
                          "structure is %s): variant %s, %s" % ("the same" if same else "DIFFERENT", vid, lab),
                          dict(variant=vid, history=lab, program_bin=path, lang="scala", shape=kind))
        for vid in ser_changed[:5]:
            rep.violation("mutation", "scala: the serialised program differs after the histories: variant %s" % vid,
                          dict(variant=vid, program_bin=save(byvid[vid]), lang="scala"))
    for name, _ in files:
        rc, out = coq_res[name]
        if rc != 0:
            rep.violation("case-file", "case file %s did not evaluate: %s" % (name, out[-400:]), dict(broken=name, log=out[-3000:]),
                          no_input=True)
            continue
        vals = C.parse_eval_outputs(out)
        if pid == "C11":
            bad = C.parse_nat_list(vals[0])
            compared += len(index[name])
            for i in bad:
                o, pkg, t = index[name][i]
                mism += 1
                rep.violation("correspondence", "scala %s seed %s (%s): the text of the real ScalaTranslator (%s) is not the model's "
                              "print_program" % (o.stage, o.seed, pkg, o.texts[pkg][t][:3]),
                              dict(lang="scala", seed=o.seed, stage=o.stage, program_bin=save(o), histories=o.texts[pkg][t][:5],
                                   broken="correspondence IR.PrintScala.print_program vs ScalaTranslator"),
                              no_input=len(o.texts[pkg]) == 1)
            if hist and name == tag + "k_0":
                val = vals[-1].split(" : ")[0].strip()
                hist_ok = val in ("([], true)", "(nil, true)")
                if not hist_ok:
                    rep.violation("correspondence", "scala: the history replayed on the model (state threaded through 8 translations) "
                                  "gives %s, expected ([], true)" % val, dict(broken="history_mismatches", value=val, lang="scala"),
                                  no_input=True)
            continue
        for o, v in zip(index[name], vals):
            b = [x.strip() == "true" for x in v.split(" : ")[0].strip().strip("()").split(",")]
            eq, wf, clean, bp, bb, bs, inv, invf = b
            directed = o.stage == "directed"
            St = fstats if directed else stats
            St["compared"] += 1
            compared += 1
            if not eq:
                St["mismatches"] += 1
                mism += 1
                rep.violation("correspondence", "scala %s seed %s: the text of the real ScalaTranslator is not the model's print_program"
                              % (o.stage, o.seed),
                              dict(lang="scala", seed=o.seed, stage=o.stage, program_bin=save(o),
                                   broken="correspondence IR.PrintScala.print_program vs ScalaTranslator"), no_input=True)
                continue
            if directed:
                fstats["in_hypotheses" if (wf and clean) else "outside_hypotheses"] += 1
                if wf and clean and not (bp and bb and bs and inv):
                    rep.violation("theorem-vs-evaluation", "scala directed tree %s: within the hypotheses but (balanced(), balanced{}, "
                                  "balanced[], inventory) = %s" % (o.seed, (bp, bb, bs, inv)),
                                  dict(seed=o.seed, value=b, program_bin=save(o), lang="scala"), no_input=True)
                if wf and not invf:
                    fstats["full_inventory_fails"] += 1
                    if fstats["full_inventory_fails"] == 1:
                        rep.violation("scala-negated-is-not-printed",
                                      "scala directed tree %s: the tree has a negated type test (`!is`) and ScalaTranslator.visit_is prints "
                                      "`e.isInstanceOf[T]` without the negation: the marks of the text are not the full inventory "
                                      "(theorem scala_is_negation_not_printed_refuted; the generator itself only builds positive Is nodes)"
                                      % o.seed, dict(seed=o.seed, lang="scala", stage="directed", program_bin=save(o),
                                                     shape="scala-negated-is-not-printed"))
                continue
            stats["wf"] += wf
            stats["clean"] += clean
            stats["in_hypotheses"] += (wf and clean)
            stats["balanced_real_text"] += (bp and bb and bs)
            stats["inventory_ok"] += inv
            stats["full_inventory_ok"] += invf
            if not wf:
                rep.violation("hypothesis", "scala %s seed %s: the program does not have the node shape the theorems assume (wf = false)"
                              % (o.stage, o.seed), dict(lang="scala", seed=o.seed, stage=o.stage, program_bin=save(o), shape="not-wf"))
            if not (bp and bb and bs):
                rep.violation("balance", "scala %s seed %s: brackets of the real text are not balanced: () %s, {} %s, [] %s (clean = %s)"
                              % (o.stage, o.seed, bp, bb, bs, clean),
                              dict(lang="scala", seed=o.seed, stage=o.stage, program_bin=save(o), shape="unbalanced-text"))
            if not inv:
                rep.violation("inventory", "scala %s seed %s: the marked pieces of the text are not the inventory of the program"
                              % (o.stage, o.seed), dict(lang="scala", seed=o.seed, stage=o.stage, program_bin=save(o), shape="inventory"))
            elif not invf:
                rep.violation("scala-negated-is-not-printed", "scala %s seed %s: a negated type test of the program is printed without its "
                              "negation" % (o.stage, o.seed),
                              dict(lang="scala", seed=o.seed, stage=o.stage, program_bin=save(o), shape="scala-negated-is-not-printed"))
    C.clean_cases(tag)
    res = dict(proof=dict(ok=proof.get("ok"), obligations=proof.get("obligations"), discharged=proof.get("discharged"),
                          assumptions=proof.get("assumptions"), cmd=proof.get("cmd"), forbidden_tokens=proof.get("forbidden_tokens"),
                          non_closed=proof.get("non_closed"), broken=proof.get("broken")),
               obligations=proof.get("obligations", []), discharged=proof.get("discharged", []),
               print_assumptions=proof.get("assumptions", {}),
               programs=len(variants), directed_trees=len(fuzz), directed_trees_rejected_by_impl=fuzz_crash,
               texts_compared=compared, mismatches=mism, histories=nhist, scala_translations=ntrans,
               history_dependent_variants=hist_viol, model_history_replayed=hist_ok,
               program_snapshots_changed=len(mutated) + len(ser_changed),
               other_translator_failures_on_scala_programs=other_fail,
               generation_abandoned_after_10s=gen_timeouts, exceptions=len(crashes), exception_samples=[list(c) for c in crashes[:5]],
               text_features_seen=cov, generation_s=round(t_gen, 1), coq_s=round(t_coq, 1), wall_s=round(time.time() - t_all, 1),
               rule="Scala programs (generated / erased / overwritten, one object through the stages as hephaestus.gen_program does) "
                    "and random trees; every distinct text compared with IR.PrintScala.print_program inside Coq (vm_compute)")
    if pid == "C12":
        res.update(scala=stats, directed=fstats)
    return res
