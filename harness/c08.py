"""C08 -- instantiation helpers pick type arguments within bounds and allowed variance.

What Coq carries: (i) the variance-choice logic of _get_type_arg_variance for every random
draw (shared with C17: a projection only where variance_choices, the declared variance and
both switches allow it, never on a parameter another bound mentions); (ii) the reference
relation SubA with its proved-sound checker.  The assignment computation itself
(_compute_type_variable_assignments and its helpers, ~200 lines of randomised search over
find_subtypes) is NOT modelled: every call explored on this run is validated -- one argument
per parameter, no primitive / bare constructor, pre-assignments kept, projections only where
allowed (structural, in the harness), and for every bounded parameter the kernel proves
SubA (upper bound of the argument) (declared bound with the other arguments substituted).
"""
import random
import re

import common as C
import tymodel as T


def mk_pool(L, b, tab):
    from src.ir import ast
    pool = []
    decls = {}
    for cid in sorted(tab):
        params, sups = tab[cid]
        d = ast.ClassDeclaration("K%d" % cid, [ast.SuperClassInstantiation(b.obj(s), []) for s in sups],
                                 ast.ClassDeclaration.REGULAR, [], [], True, [b.obj(p) for p in params])
        decls[cid] = d
        pool.append(d)
    pool += list(L.factory.get_non_nothing_types())
    return pool, decls


def mentions(tp, bound, p, depth=0):
    """Does the bound mention the type parameter p anywhere (directly, as a type argument at any depth, under a projection,
    or through the bound of a type variable it mentions)?  Written here, not taken from the implementation."""
    if bound is None or depth > 12:
        return False
    if isinstance(bound, tp.TypeParameter):
        return bound == p or mentions(tp, bound.bound, p, depth + 1)
    if isinstance(bound, tp.WildCardType):
        return mentions(tp, bound.bound, p, depth + 1)
    if isinstance(bound, tp.ParameterizedType):
        return any(mentions(tp, a, p, depth + 1) for a in bound.type_args)
    return False


def upper(tp, a):
    if isinstance(a, tp.WildCardType):
        return a.bound
    return a


def run(tier, seed, replay=None):
    rep = C.Report("C08", tier, seed, "translation_validation")
    C.setup_repo_import(seed)
    T.emit_generated()
    from src.ir import type_utils as tu, types as tp
    from src.generators.config import cfg
    from src import utils
    proof_ok = C.proof_part(rep, "Types/Properties_C08.v", ["Generated/Builtins.vo", "Types/Judge09.vo", "IR/SwitchProofs.vo"],
                            ["Types", "Generated", "IR"])
    rng = random.Random(C.sub_seed(seed, "c08"))
    utils.random.r.seed(C.sub_seed(seed, "c08-impl"))
    langs = {l: T.Lang(l) for l in T.LANGS}
    ntab = 100 if tier == "quick" else 2500
    groups = []
    problems = []
    ncalls = 0
    crashes = []
    opts_hist = {}
    saved = (cfg.dis.use_site_variance, cfg.dis.use_site_contravariance)
    try:
        for i in range(ntab):
            lang = T.LANGS[i % 4]
            L = langs[lang]
            tab = T.gen_table(rng, L, conforming=True)
            chain_cid = None
            if rng.random() < 0.5:
                # a chain of variable bounds  K<T1, T2 : T1, T3 : T2>
                chain_cid = max(tab) + 1
                p1 = ("V", chain_cid * 10, 0, None)
                p2 = ("V", chain_cid * 10 + 1, 0, p1)
                p3 = ("V", chain_cid * 10 + 2, 0, p2)
                tab[chain_cid] = ([p1, p2, p3], [])
            deep_cid = None
            if rng.random() < 0.45:
                # a later bound mentions an earlier parameter only at nesting depth >= 2:  K<T1, T2 : BoxA<BoxB<T1>>> and variants
                ba, bb = max(tab) + 1, max(tab) + 2
                deep_cid = max(tab) + 3
                tab[ba] = ([("V", ba * 10, 0, None)], [])
                tab[bb] = ([("V", bb * 10, 0, None)], [])
                p1 = ("V", deep_cid * 10, 0, None)
                inner = ("A", bb, [p1])
                shape = rng.randrange(3)
                if shape == 1:
                    inner = ("A", bb, [("W", 1, p1)])            # BoxA<BoxB<out T1>>
                mid = ("A", ba, [inner] if shape != 2 else [("W", 1, inner)])     # shape 2: BoxA<out BoxB<T1>>
                p2 = ("V", deep_cid * 10 + 1, 0, mid)
                tab[deep_cid] = ([p1, p2], [])
            fan_cid = None
            if rng.random() < 0.4:
                # one variable bounds several later parameters:  K<T1, T2 : Box<T1> | T1, T3 : T1, T4 : T1>; the caller asks for
                # one of the dependents that is not the last one
                bx = max(tab) + 1
                fan_cid = max(tab) + 2
                tab[bx] = ([("V", bx * 10, 0, None)], [])
                q1 = ("V", fan_cid * 10, 0, None)
                q2 = ("V", fan_cid * 10 + 1, 0, ("A", bx, [q1]) if rng.random() < 0.6 else q1)
                q3 = ("V", fan_cid * 10 + 2, 0, q1)
                q4 = ("V", fan_cid * 10 + 3, 0, q1)
                tab[fan_cid] = ([q1, q2, q3, q4], [])
            b = T.Builder(L, tab)
            pool, decls = mk_pool(L, b, tab)
            gens = [c for c in tab if tab[c][0]]
            bounds = []
            for _ in range(8):
                if not gens:
                    break
                c = chain_cid if (chain_cid is not None and rng.random() < 0.3) else rng.choice(gens)
                if deep_cid is not None and rng.random() < 0.35:
                    c = deep_cid
                if fan_cid is not None and rng.random() < 0.3:
                    c = fan_cid
                con = decls[c].get_type()
                params = con.type_parameters
                cfg.dis.use_site_variance = rng.random() < 0.25
                cfg.dis.use_site_contravariance = rng.random() < 0.25
                mode = rng.choice(["class", "class", "function"])
                pre = None
                nums_ = [t for t in L.builtin_terms(prims=False) if L.info[t[1]]["name"] == "NumberType"]
                if c == fan_cid and c is not None and nums_:
                    pre = {params[2]: b.obj(rng.choice(nums_ + [t for t in L.builtin_terms(prims=False)
                                                                   if L.info[t[1]]["name"] in ("StringType", "BooleanType")][:2]))}
                elif c == chain_cid and nums_ and rng.random() < 0.7:
                    # only the LAST parameter of the chain is requested: the helper has to make T2 and T1 follow
                    pre = {params[2]: b.obj(nums_[0])}
                elif c != chain_cid and c != fan_cid and rng.random() < 0.4:
                    # a pre-assignment that is consistent with the bounds by construction
                    pre = {}
                    for p in params:
                        if rng.random() < 0.5:
                            if p.bound is None:
                                cand = b.obj(T.gen_ground(rng, L, tab, [t for t in L.builtin_terms(prims=False)
                                                                         if not L.info[t[1]]["bottom"]], 1))
                            else:
                                try:
                                    cand = tp.substitute_type(p.bound, pre)
                                except Exception:       # noqa: BLE001
                                    continue
                                top_ = cand
                                while top_ is not None and top_.is_type_var() and top_.bound is not None:
                                    top_ = top_.bound       # T3 : T2 : Box<Any> -- the end of the chain decides what is consistent
                                if cand.is_type_var() and top_ is not None and not top_.is_type_var():
                                    cand = top_
                                if cand.is_type_var() and rng.random() < 0.6 and not any(
                                        q in pre for q in params):
                                    # T3 : T2 with T2 not assigned: any ground type is consistent, the helper
                                    # has to make T2 (and T1 ...) follow
                                    cand = b.obj(T.gen_ground(rng, L, tab, [t for t in L.builtin_terms(prims=False)
                                                                             if not L.info[t[1]]["bottom"]], 0))
                                if cand.has_type_variables():
                                    continue
                            pre[p] = cand
                    # every later parameter bounded by an assigned one must be able to follow: keep only
                    # prefixes that are closed under "bound is assigned"
                vc = None
                r = rng.random()
                if r < 0.35:
                    vc = {}
                elif r < 0.7:
                    vc = {p: (rng.random() < 0.5, rng.random() < 0.5) for p in params if rng.random() < 0.7}
                if c == deep_cid and c is not None:
                    vc = {} if rng.random() < 0.6 else {params[0]: (True, True)}
                vc_in = None if vc is None else dict(vc)
                dv = rng.random() < 0.15 and c != deep_cid
                key = "%s/pre=%s/vc=%s/dv=%s" % (mode, pre is not None, "none" if vc is None else ("empty" if not vc else "map"), dv)
                opts_hist[key] = opts_hist.get(key, 0) + 1
                try:
                    if mode == "class":
                        ptype, tvm = tu.instantiate_type_constructor(con, pool, type_var_map=pre, variance_choices=vc,
                                                                     disable_variance=dv)
                        args = list(ptype.type_args)
                    else:
                        tvm = tu.instantiate_parameterized_function(params, pool, type_var_map=pre)
                        args = [tvm.get(p) for p in params]
                        vc_in = None
                        dv = False
                except Exception as e:      # noqa: BLE001
                    crashes.append((lang, c, type(e).__name__ + ": " + str(e)[:80]))
                    continue
                ncalls += 1
                where = "%s: %s of K%d (pre=%s, variance_choices=%s)" % (lang, mode, c, pre, vc_in)
                # (1) one argument per parameter
                if len(args) != len(params) or any(a is None for a in args) or any(p not in tvm for p in params):
                    problems.append((where, "not exactly one type argument per type parameter: %s" % (args,), tab, lang))
                    continue
                plain = {p: upper(tp, a) for p, a in zip(params, args)}
                for k, (p, a) in enumerate(zip(params, args)):
                    # (3) usable arguments
                    u = upper(tp, a)
                    if u is not None and (u.is_primitive() if hasattr(u, "is_primitive") and not u.is_type_var() else False):
                        problems.append((where, "argument %d is the primitive type %s" % (k, u), tab, lang))
                    if isinstance(a, tp.TypeConstructor) or isinstance(u, tp.TypeConstructor):
                        problems.append((where, "argument %d is the uninstantiated generic class %s" % (k, a), tab, lang))
                    # (5) projections only where allowed
                    if isinstance(a, tp.WildCardType) and not (pre and p in pre and isinstance(pre[p], tp.WildCardType)):
                        later = params[k + 1:]
                        why = None
                        if mode == "function":
                            why = "a generic function's type argument is projected"
                        elif vc_in is None and not (con.name.startswith("Function")):
                            why = "no variance choices were given"
                        elif dv:
                            why = "variance was disabled by the caller"
                        elif cfg.dis.use_site_variance:
                            why = "use-site variance is disabled"
                        elif a.variance.is_contravariant() and cfg.dis.use_site_contravariance:
                            why = "use-site contravariance is disabled"
                        elif any(mentions(tp, q.bound, p) for q in later):
                            why = "the parameter is mentioned in another parameter's bound"
                        elif (a.variance.is_covariant() and p.is_contravariant()) or (a.variance.is_contravariant() and p.is_covariant()):
                            why = "the projection conflicts with the declared variance"
                        elif vc_in is not None and p in vc_in and not con.name.startswith("Function"):
                            cv, cc = vc_in[p]
                            if (a.variance.is_covariant() and not cv) or (a.variance.is_contravariant() and not cc):
                                why = "the caller's variance choices forbid it"
                        if why and a.bound is not None:
                            problems.append((where, "argument %d is the projection %s although %s" % (k, a, why), tab, lang))
                    # (4) pre-assignments kept
                    if pre and p in pre:
                        want = pre[p]
                        ok_kept = (a == want) or (isinstance(a, tp.WildCardType) and a.bound == want)
                        consistent = True
                        if p.bound is not None:
                            try:
                                bd = tp.substitute_type(p.bound, {q: (pre[q] if q in pre else plain[q]) for q in params})
                                consistent = (want == bd) or want.is_subtype(bd)
                            except Exception:   # noqa: BLE001
                                consistent = False
                        if consistent and not ok_kept and mode == "class":
                            problems.append((where, "the requested assignment %s -> %s was replaced by %s" % (p, want, a), tab, lang))
                    # (2) bounds: collected for the kernel
                    if p.bound is not None and u is not None and not (isinstance(a, tp.WildCardType) and a.variance.is_contravariant()):
                        try:
                            bd = tp.substitute_type(p.bound, plain)
                            bounds.append((where, T.reify(L, u), T.reify(L, bd)))
                        except Exception:       # noqa: BLE001
                            pass
            groups.append((lang, tab, L.any_bid, bounds))
    finally:
        cfg.dis.use_site_variance, cfg.dis.use_site_contravariance = saved

    # generator stream: every call of the assignment computation that the REAL generator issues while it generates programs
    # (stressed configuration: bounded type parameters, parameterized functions) is validated structurally -- the callers
    # choose the pools, so a caller handing over an unboxed pool or a bare constructor shows here and nowhere else
    import progs
    gen_calls, gen_progs, gen_crashes = [0], 0, []
    orig = tu._compute_type_variable_assignments

    def watched(type_parameters, types, type_var_map=None, variance_choices=None, for_type_constructor=True):
        pre_ = dict(type_var_map or {})
        t_args, tvm = orig(type_parameters, types, type_var_map, variance_choices, for_type_constructor)
        gen_calls[0] += 1
        where = "%s: call issued by the generator (program seed %d) for parameters %s" % (cur[0], cur[1], list(type_parameters))
        if len(t_args) != len(type_parameters) or any(p not in tvm for p in type_parameters):
            problems.append((where, "not exactly one type argument per type parameter: %s" % (t_args,), {}, cur[0]))
        for k_, (p, a) in enumerate(zip(type_parameters, t_args)):
            if p in pre_:
                continue                     # requested by the caller: kept, not chosen here
            u = upper(tp, a)
            if u is not None and not u.is_type_var() and hasattr(u, "is_primitive") and u.is_primitive():
                problems.append((where, "argument %d is the primitive type %s" % (k_, u), {}, cur[0]))
            if isinstance(a, tp.TypeConstructor) or isinstance(u, tp.TypeConstructor):
                problems.append((where, "argument %d is the uninstantiated generic class %s" % (k_, a), {}, cur[0]))
            if isinstance(a, tp.WildCardType) and a.bound is not None and not for_type_constructor:
                problems.append((where, "argument %d of a generic function is the projection %s" % (k_, a), {}, cur[0]))
        return t_args, tvm
    cur = [None, 0]
    tu._compute_type_variable_assignments = watched
    try:
        rows_ = progs.config_table()
        for lang in T.LANGS:
            nprog = (8 if lang in ("java", "groovy") else 3) if tier == "quick" else 150
            for s_ in range(nprog):
                sd = C.sub_seed(seed, "c08gen", lang, s_) % (2 ** 31)
                cur[0], cur[1] = lang, sd
                progs.set_cfg(rows_[0])
                try:
                    (progs.generate_directed if s_ % 4 else progs.generate)(lang, sd)
                    gen_progs += 1
                except Exception as e:      # noqa: BLE001  (generator failures are C18's subject)
                    gen_crashes.append((lang, sd, type(e).__name__))
        progs.set_cfg(rows_[0])
    finally:
        tu._compute_type_variable_assignments = orig

    hdr = (C.CASE_HEADER + "From Coq Require Import List Arith Bool.\nImport ListNotations.\n"
           "From Heph Require Import Types.Syntax Types.Subst Types.Subtype Types.Decl Types.Corr Types.Judge Types.Judge09 "
           "Types.RefSound Generated.Builtins.\n")
    files = []
    for k, (lang, tab, anyb, bounds) in enumerate(groups):
        if not bounds:
            continue
        w = "{| w_ct := %s ++ bclasses_%s; w_bt := bt_%s; w_array := array_%s |}" % (T.coq_ctable(tab), lang, lang, lang)
        cs = ";\n".join("CSub %s false false [%s]" % (T.cterm(bd), T.cterm(u)) for (_, u, bd) in bounds)
        files.append(("c08_%d" % k, hdr + "Definition w : world := %s.\nDefinition cs : list case09 := [\n%s\n].\n"
                      "Eval vm_compute in (judge09_all w %d 60 0 cs).\n" % (w, cs, anyb)))
    C.clean_cases("c08")
    res = C.run_case_files(files, timeout=1200)
    bad = {}
    for name, _ in files:
        k = int(name.split("_")[1])
        rc, out = res[name]
        if rc != 0:
            rep.violation("case-file", "case file %s did not evaluate: %s" % (name, out[-600:]),
                          dict(broken=name, log=out[-3000:]), no_input=True)
            continue
        body = C.parse_eval_outputs(out)[-1].split(" : ")[0]
        for m in re.findall(r"\((\d+),\s*(\d+),\s*(\d+)\)", body):
            ci, j, code = int(m[0]), int(m[1]), int(m[2])
            if j == 0:
                continue                   # self-inclusion slot is meaningless here
            bad.setdefault(k, {})[ci] = code
    # certificates
    cert = []
    for k, (lang, tab, anyb, bounds) in enumerate(groups):
        thms = []
        for ci, (_, u, bd) in enumerate(bounds):
            if ci in bad.get(k, {}) or u == bd and False:
                continue
            thms.append("Theorem b_%d : SubA w [] %s %s.\nProof. apply sub_ref_yes_sound_lem with (fuel := 60). vm_compute. reflexivity. Qed."
                        % (ci, T.cterm(u), T.cterm(bd)))
        if thms:
            w = "{| w_ct := %s ++ bclasses_%s; w_bt := bt_%s; w_array := array_%s |}" % (T.coq_ctable(tab), lang, lang, lang)
            cert.append(("c08c_%d" % k, hdr + "Definition w : world := %s.\n" % w + "\n".join(thms) + "\n", len(thms)))
    res2 = C.run_case_files([(n, t) for n, t, _ in cert], timeout=1500)
    ncert = 0
    for n, t, cnt in cert:
        rc, out = res2[n]
        if rc == 0:
            ncert += cnt
        else:
            rep.violation("certificate", "kernel did not accept the bound derivations of %s: %s" % (n, out[-500:]),
                          dict(broken=n, log=out[-2500:]), no_input=True)
    C.clean_cases("c08")
    SH = {11: "core", 12: "projection", 13: "tyvar", 17: "ill-formed", 5: "reference-out-of-fuel"}
    hist = {}
    for k, d in bad.items():
        lang, tab, anyb, bounds = groups[k]
        for ci, code in d.items():
            kind = "bound-" + SH.get(code, str(code))
            hist[kind] = hist.get(kind, 0) + 1
            if code == 5:
                continue
            where, u, bd = bounds[ci]
            rep.violation(kind, "%s: argument %s is not within the substituted bound %s [%s]" % (where, T.cterm(u), T.cterm(bd), kind),
                          dict(lang=lang, table={kk: list(v) for kk, v in tab.items()}, arg=u, bound=bd, where=where, shape=kind))
    for where, what, tab, lang in problems:
        rep.violation("structural", "%s: %s" % (where, what),
                      dict(lang=lang, table={kk: list(v) for kk, v in tab.items()}, where=where, what=what, shape="structural"))
    if not proof_ok and not rep.violations:
        rep.violation("proof", rep.proof_broken, dict(broken=rep.proof_broken), no_input=True)
    nb = sum(len(g[3]) for g in groups)
    rep.add(generator_stream_programs=gen_progs, generator_stream_calls=gen_calls[0], generator_stream_generation_failures=len(gen_crashes),
            generator_stream_rule="the real generator (plain and directed/stressed configuration) with _compute_type_variable_assignments "
                                  "wrapped: per call one argument per parameter, no primitive / bare constructor among the arguments the "
                                  "helper chose itself, no projection for a generic function")
    rep.add(programs=ncalls, calls=ncalls, evaluations=ncalls, bound_obligations=nb, kernel_certificates=ncert,
            distinct_nontrivial=ncert, disagreements_checked=len(problems) + sum(len(d) for d in bad.values()),
            verdict_histogram=hist, exceptions=len(crashes), exception_samples=[list(c) for c in crashes[:5]],
            option_histogram=opts_hist,
            rule="8 calls per random class table on its generic classes: instantiate_type_constructor (2/3) or "
                 "instantiate_parameterized_function (1/3) with random pre-assignments (40%), variance_choices (None / {} / random "
                 "map), disable_variance (15%) and both cfg switches drawn at random; pool = the table's classes as "
                 "ClassDeclarations + the language's built-in types. 'programs' counts calls; distinct_nontrivial = bound "
                 "obligations proved by the kernel",
            samples=[dict(lang=groups[0][0], bounds=[[T.cterm(u), T.cterm(bd)] for _, u, bd in groups[0][3][:3]])] if groups else [dict()],
            trusted_base=C.TRUSTED_BASE_COMMON + [
                "the assignment computation is not modelled: each explored call is validated (structural checks in the harness, "
                "bound obligations by the proved-sound reference checker in the kernel)"])
    rep.assumptions = ["validation covers the calls explored by this run"]
    return rep.finish()
