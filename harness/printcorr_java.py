"""C11 / C12 for the JAVA translator: proof re-check + byte-exact correspondence of the model
coq/IR/PrintJava.v with the real JavaTranslator.

    run_part(rep, tier, seed, pid)      pid in ("C11", "C12")

  (a) re-checks coq/IR/Properties_<pid>_java.v (C.check_properties_file);
  (b) runs the correspondence and reports disagreements with rep.violation(kind, what, detail);
  returns dict(proof=<the dict of check_properties_file>, coverage=<numbers>): the caller merges
  `proof` with C.proof_part_extra(rep, r["proof"]) and records `coverage` (e.g. rep.add(java=...)).

The caller has set up the repo import (C.setup_repo_import, src.args imported).

C11: every text the real JavaTranslator produces on generated / erased / overwritten Java
programs (one program object and one translator object through the stages, package reassigned
before the incorrect program: what hephaestus.gen_program does) and on random trees
(fuzz_java.JFuzz), through the histories of c11.py -- fresh object, same object twice, one
long-lived object over all variants in random order with package reassignment and Kotlin /
Groovy / Scala translations of the same program object in between -- is compared INSIDE Coq,
byte for byte, with print_program of the serialised program; one history of 8 translations is
replayed on the model with the translator state threaded through (history_mismatches: texts and
final state = initial state).  The program is snapshot (pickle) around every translation.
C12: per program the Coq evaluation c12_report (text equality, the hypotheses wf / lex / clean of
the theorems, balance of the REAL text, the inventory decision, the number of variable
declarations whose declared type is absent -- all of them are printed with a type: known finding
C12-java-var).
"""
import os
import pickle
import random
import threading
import time

import common as C
import progs
import ir2print as P
import ir2print_java as J
import fuzz_java as FJ
import c11 as H

OPTS = {"cast_numbers": False}       # what hephaestus passes (cli_args.options['Translator']); JavaTranslator ignores it
DEPS = ["IR/PrintKotlin.vo", "IR/PrintProofs.vo", "IR/PrintJava.vo", "IR/PrintJavaProofs.vo"]


def _same_structure(b0, b1):
    try:
        return J.JSer(pickle.loads(b0)).prog() == J.JSer(pickle.loads(b1)).prog()
    except Exception:       # noqa: BLE001
        return None


def translate_checked(utils, tr, p, mutated, label):
    """translate_program with a pickle snapshot of the program before and after"""
    b0 = pickle.dumps(p)
    txt = utils.translate_program(tr, p)
    b1 = pickle.dumps(p)
    if b0 != b1:
        mutated.append(label + (_same_structure(b0, b1), b0))
    return txt


def stages_of(sd, TE, TO, utils, JT, mutated, vid0, pkgs, gen_timeout=10):
    """generate -> erase -> overwrite on ONE program object with ONE translator object"""
    p = P.with_timeout(gen_timeout, progs.generate, "java", sd)
    tr = JT(pkgs[0], OPTS)
    out = []
    for stage in ("generated", "erased", "overwritten"):
        if stage == "erased":
            te = TE(p, "java", None, {"timeout": 600})
            te.transform()
            p = te.result()
        if stage == "overwritten":
            tr.package = pkgs[1]
            to = TO(p, "java", None, {"timeout": 600})
            to.transform()
            p = to.result()
        o = H.Obs(vid0 + len(out), "java", sd, stage, pickle.dumps(p))
        lab = "driver-object/%s" % stage
        o.see(tr.package, translate_checked(utils, tr, p, mutated, (o.vid, lab)), lab)
        if stage == "overwritten":
            o.see(tr.package, translate_checked(utils, tr, p, mutated, (o.vid, lab + "/again")), lab + "/again")
        out.append(o)
    return out


def serialise(o, crashes, stats):
    try:
        js = J.JSer(o.program())
        o.term = js.prog()
        stats["hint_exceptions"] += js.hint_exceptions
        stats["hint_unprintable"] += js.hint_unprintable
        stats["nodes"] += js.nnodes
        for k, v in js.kinds.items():
            stats["kinds"][k] = stats["kinds"].get(k, 0) + v
        return True
    except J.SerError as e:
        crashes.append(("java", o.seed, "serialiser (fail-closed): %s" % e))
        stats["rejected_by_serialiser"] += 1
        return False


def case_files(prefix, variants, per, extra_first=""):
    files, index = [], {}
    for k in range(0, len(variants), per):
        chunk = variants[k:k + per]
        name = "%s_%d" % (prefix, k // per)
        defs, cases, idx = [], [], []
        for o in chunk:
            defs.append("Definition v%d : pprogram := %s.\n" % (o.vid, o.term))
            for pkg, tx in o.texts.items():
                for t in tx:
                    cases.append("(%s, v%d, %s)" % (P.cstr(pkg or ""), o.vid, P.cstr(t)))
                    idx.append((o, pkg, t))
        text = (J.HEADER + "".join(defs) + "Definition cases : list (string * pprogram * string) := [\n" +
                ";\n".join(cases) + "\n].\nEval vm_compute in (mismatches 0 cases).\n")
        if k == 0:
            text += extra_first
        files.append((name, text))
        index[name] = idx
    return files, index


def _save(pid, o):
    os.makedirs(os.path.join(C.REPLAYS, pid), exist_ok=True)
    path = os.path.join(C.REPLAYS, pid, "prog-java-%s-%s.bin" % (o.seed, o.stage))
    with open(path, "wb") as f:
        f.write(o.blob or pickle.dumps(o.obj))
    return path


def generate_variants(seed, tag, n, utils, JT, mutated, crashes, gen_timeouts, pkgs):
    from src.transformations.type_erasure import TypeErasure
    from src.transformations.type_overwriting import TypeOverwriting
    variants = []
    for s in range(n):
        sd = C.sub_seed(seed, tag, "java", s) % (2 ** 31)
        try:
            variants.extend(stages_of(sd, TypeErasure, TypeOverwriting, utils, JT, mutated, 300000 + len(variants), pkgs))
        except P.GenTimeout:
            gen_timeouts.append(("java", sd))
        except Exception as e:      # noqa: BLE001
            crashes.append(("java", sd, "%s: %s" % (type(e).__name__, str(e)[:120])))
    return variants


def fuzz_variants(seed, tag, n, utils, JT, fuzz_crash, crashes, stats, extra=None):
    out = []
    for s in range(n):
        frng = random.Random(C.sub_seed(seed, tag, s))
        p = FJ.JFuzz(frng).program()
        o = H.Obs(400000 + s, "java", s, "directed", b"")
        o.obj = p
        try:
            tr = JT("src.pkg", OPTS)
            t1 = utils.translate_program(tr, p)
        except Exception as e:      # noqa: BLE001  (malformed tree: the implementation raises)
            k = type(e).__name__
            fuzz_crash[k] = fuzz_crash.get(k, 0) + 1
            continue
        if not serialise(o, crashes, stats):
            continue
        o.see("src.pkg", t1, "fresh")
        if extra:
            try:
                extra(o, tr, p)
            except Exception as e:      # noqa: BLE001  (Program.get_types draws random numbers: a malformed tree can
                k = "later translation: " + type(e).__name__      # be rejected in one translation and not in another)
                fuzz_crash[k] = fuzz_crash.get(k, 0) + 1
                continue
        out.append(o)
    return out


def witness_super_literal():
    """class A(f: String); final class B : A("a  b") -- the program of Properties_C12_java.literal_in_super_args_altered_refuted
    and of Properties_C11_java.text_depends_on_dirty_state_refuted"""
    from src.ir import ast, types as tp, java_types as jt, context as ctx
    p = ast.Program(ctx.Context(), "java")
    p.add_declaration(ast.ClassDeclaration("A", [], ast.ClassDeclaration.REGULAR, [ast.FieldDeclaration("f", jt.String)], [],
                                           is_final=False))
    p.add_declaration(ast.ClassDeclaration("B", [ast.SuperClassInstantiation(tp.SimpleClassifier("A"), [ast.StringConstant("a  b")])],
                                           ast.ClassDeclaration.REGULAR, [], [], is_final=True))
    return p


def probe_dirty_object(utils, JT):
    """a translation that raises in the middle (here: a type the translator cannot name) leaves the object dirty --
    _reset_state runs only at the end of a successful visit_program -- and the next text differs from a fresh object's.
    Recorded in the coverage (hephaestus does not reuse a translator after an exception)."""
    from src.ir import ast, types as tp, java_types as jt, context as ctx
    bad = ast.Program(ctx.Context(), "java")
    bad.add_declaration(ast.FunctionDeclaration("h", [], jt.Integer, ast.Block([ast.New(tp.WildCardType(), [])], True),
                                                ast.FunctionDeclaration.FUNCTION))
    tr = JT(None, OPTS)
    try:
        utils.translate_program(tr, bad)
        return dict(aborted=False)
    except Exception as e:      # noqa: BLE001
        exc = type(e).__name__
    good = witness_super_literal()
    t_dirty = utils.translate_program(tr, good)
    t_fresh = utils.translate_program(JT(None, OPTS), good)
    t_again = utils.translate_program(tr, good)
    return dict(aborted=True, exception=exc, next_text_differs_from_fresh_object=t_dirty != t_fresh,
                text_after_one_more_translation_is_fresh_again=t_again == t_fresh,
                first_difference=P.first_diff(t_dirty, t_fresh))


def probe_super_literal(utils, JT):
    """the real text of the witness: the literal "a  b" is printed as "a b" """
    t = utils.translate_program(JT(None, OPTS), witness_super_literal())
    return dict(literal_in_program='"a  b"', printed_unchanged='super("a  b")' in t, printed_collapsed='super("a b")' in t)


def run_part(rep, tier, seed, pid):
    assert pid in ("C11", "C12")
    pr = C.check_properties_file("IR/Properties_%s_java.v" % pid, DEPS)
    from src import utils
    from src.translators.java import JavaTranslator as JT
    rows = progs.config_table()
    progs.set_cfg(rows[0])
    quick = tier == "quick"
    cov = (run_c11 if pid == "C11" else run_c12)(rep, quick, seed, utils, JT)
    return dict(proof=pr, coverage=cov)


# ---------------------------------------------------------------------------------------------
def run_c11(rep, quick, seed, utils, JT):
    TR = H._translators()
    rng = random.Random(C.sub_seed(seed, "c11java"))
    nk = int(os.environ.get("VERIF_C11_JAVA_N", "5" if quick else "60"))
    nfuzz = 40 if quick else 1500
    mutated, crashes, gen_timeouts = [], [], []
    stats = dict(hint_exceptions=0, hint_unprintable=0, nodes=0, kinds={}, rejected_by_serialiser=0)
    t0 = time.time()
    variants = generate_variants(seed, "c11prog", nk, utils, JT, mutated, crashes, gen_timeouts, ("src.a", "src.b"))
    t_gen = time.time() - t0

    # ------------------------------------------------------------------ histories on the implementation
    ntrans = 4 * len(variants) // 3
    for o in variants:
        if not serialise(o, crashes, stats):
            continue
        p = o.program()
        tr = JT("src.pkg", OPTS)
        o.see("src.pkg", translate_checked(utils, tr, p, mutated, (o.vid, "fresh")), "fresh")
        o.see("src.pkg", translate_checked(utils, tr, p, mutated, (o.vid, "same-object-twice")), "same-object-twice")
        ntrans += 2
    variants = [o for o in variants if o.term is not None]
    long_lived = JT("src.pkg", OPTS)
    other_fail = {}
    seq = [rng.choice(variants) for _ in range(3 * len(variants))] if variants else []
    for step, o in enumerate(seq):
        p = o.program()
        if rng.random() < 0.3:
            long_lived.package = rng.choice(["src.pkg", "src.other", None])
        lab = "long-lived-object/step%d" % step
        if rng.random() < 0.35:
            for ol in ("kotlin", "groovy", "scala"):
                b0 = pickle.dumps(p)
                try:
                    utils.translate_program(TR[ol]("src.pkg", OPTS), p)
                except Exception:       # noqa: BLE001  (a Java program given to another translator)
                    other_fail[ol] = other_fail.get(ol, 0) + 1
                b1 = pickle.dumps(p)
                if b1 != b0:
                    mutated.append((o.vid, "translated to %s" % ol, _same_structure(b0, b1), b0))
            lab += "/after-kotlin-groovy-scala"
        o.see(long_lived.package, translate_checked(utils, long_lived, p, mutated, (o.vid, lab)), lab)
        ntrans += 1
    ser_changed = []
    for o in variants:
        try:
            if J.JSer(o.program()).prog() != o.term:
                ser_changed.append(o.vid)
        except J.SerError:
            ser_changed.append(o.vid)

    # one history replayed on the MODEL with the translator state threaded through
    hist_file = None
    if variants:
        hv = variants[:3]        # defined in the first case file
        hseq = [hv[i % len(hv)] for i in (0, 0, 1, 2, 0, 1, 2, 2)]
        hpk = ["src.pkg", "src.pkg", "src.a", "src.a", "", "src.b", "src.b", "src.pkg"]
        trh = JT("src.pkg", OPTS)
        hexp = []
        for o, pk in zip(hseq, hpk):
            trh.package = pk or None
            hexp.append(translate_checked(utils, trh, o.program(), mutated, (o.vid, "model-history")))
            o.see(pk or None, hexp[-1], "model-history")
        hist_file = "Eval vm_compute in (history_mismatches %s %s).\n" % (
            C.clist(["(%s, v%d)" % (P.cstr(pk), o.vid) for o, pk in zip(hseq, hpk)]), C.clist([P.cstr(t) for t in hexp]))

    # ------------------------------------------------------------------ directed stream (random trees)
    fuzz_crash = {}

    def more(o, tr, p):
        o.see("src.pkg", utils.translate_program(tr, p), "same-object-twice")
        if long_lived.package == "src.pkg":
            o.see("src.pkg", utils.translate_program(long_lived, p), "long-lived-object")
    fuzz = fuzz_variants(seed, "c11jfuzz", nfuzz, utils, JT, fuzz_crash, crashes, stats, extra=more)

    # ------------------------------------------------------------------ Coq
    C.clean_cases("pj11")
    files, index = case_files("pj11k", variants, 3, extra_first=hist_file or "")
    ffiles, findex = case_files("pj11f", fuzz, 20)
    index.update(findex)
    tc = time.time()
    coq_res = C.run_case_files(files + ffiles, timeout=1800)
    t_coq = time.time() - tc

    # ------------------------------------------------------------------ verdicts
    hist_viol = 0
    for o in variants + fuzz:
        for pkg, tx in o.texts.items():
            if len(tx) > 1:
                hist_viol += 1
                texts = list(tx)
                d = P.first_diff(texts[0], texts[1])
                rep.violation("history", "java %s seed %s (%s): the text depends on the history of the translator object: %s vs %s, "
                              "first difference at offset %d: %r / %r" % (o.stage, o.seed, pkg, tx[texts[0]][:2], tx[texts[1]][:2], d,
                                                                       texts[0][max(0, d - 30):d + 30], texts[1][max(0, d - 30):d + 30]),
                              dict(lang="java", seed=o.seed, stage=o.stage, program_bin=_save("C11", o),
                                   histories={t[:40]: l for t, l in tx.items()}))
    byvid = {o.vid: o for o in variants + fuzz}
    nmut = {}
    for vid, lab, same, b0 in mutated:
        kind = "mutation-identity-only" if same else "mutation-structural"
        nmut[kind] = nmut.get(kind, 0) + 1
        if nmut[kind] > 3:
            continue
        os.makedirs(os.path.join(C.REPLAYS, "C11"), exist_ok=True)
        path = os.path.join(C.REPLAYS, "C11", "prog-java-before-%s-%s.bin" % (vid, abs(hash(lab)) % 100000))
        with open(path, "wb") as f:
            f.write(b0)
        rep.violation(kind, "java: translating modified the program object (pickle snapshot before/after differs; the serialised "
                      "structure is %s): variant %s, %s" % ("the same" if same else "DIFFERENT", vid, lab),
                      dict(variant=vid, history=lab, program_bin=path, lang="java", shape=kind))
    for vid in ser_changed[:5]:
        rep.violation("mutation", "java: the serialised program differs after the histories: variant %s" % vid,
                      dict(variant=vid, program_bin=_save("C11", byvid[vid]), lang="java"))
    compared, mism = 0, 0
    for name, _ in files + ffiles:
        rc, out = coq_res[name]
        if rc != 0:
            rep.violation("case-file", "case file %s did not evaluate: %s" % (name, out[-400:]), dict(broken=name, log=out[-3000:]),
                          no_input=True)
            continue
        bad = C.parse_nat_list(C.parse_eval_outputs(out)[0])
        compared += len(index[name])
        for i in bad:
            o, pkg, t = index[name][i]
            mism += 1
            rep.violation("correspondence", "java %s seed %s (%s): the text of the real JavaTranslator (%s) is not the model's "
                          "print_program" % (o.stage, o.seed, pkg, o.texts[pkg][t][:3]),
                          dict(lang="java", seed=o.seed, stage=o.stage, program_bin=_save("C11", o), histories=o.texts[pkg][t][:5],
                               broken="correspondence IR.PrintJava.print_program vs JavaTranslator"),
                          no_input=len(o.texts[pkg]) == 1)
    hist_ok = None
    if hist_file and files:
        rc, out = coq_res[files[0][0]]
        if rc == 0:
            val = C.parse_eval_outputs(out)[-1].split(" : ")[0].strip()
            hist_ok = val in ("([], true)", "(nil, true)")
            if not hist_ok:
                rep.violation("correspondence", "java: the history replayed on the model (state threaded through 8 translations) gives "
                              "%s, expected ([], true)" % val, dict(broken="PrintJava.history_mismatches", value=val, lang="java"),
                              no_input=True)
    C.clean_cases("pj11")
    return dict(programs=len(variants), directed_trees=len(fuzz), directed_trees_rejected_by_impl=fuzz_crash,
                evaluations=compared, model_impl_mismatches=mism,
                probe_object_reused_after_an_aborted_translation=probe_dirty_object(utils, JT),
                distinct_texts=len({t for o in variants + fuzz for tx in o.texts.values() for t in tx}),
                java_translations=ntrans + 2 * len(fuzz), history_dependent_variants=hist_viol, model_history_replayed=hist_ok,
                program_snapshots_changed=len(mutated) + len(ser_changed), snapshot_change_kinds=nmut,
                other_translator_failures_on_java_programs=other_fail, serialiser=stats,
                generation_abandoned_after_10s=[list(g) for g in gen_timeouts], exceptions=len(crashes),
                exception_samples=[list(c) for c in crashes[:5]], generation_s=round(t_gen, 1), coq_s=round(t_coq, 1),
                rule="Java programs (generated / erased / overwritten, one object through the stages) and random trees; per variant: "
                     "fresh translator, same object twice, one long-lived object over a random sequence of all variants with package "
                     "reassignment and Kotlin/Groovy/Scala translations of the same program object in between; every distinct text is "
                     "compared with PrintJava.print_program inside Coq; one history replayed on the model with threaded state; pickle "
                     "snapshot around every translation",
                trusted_base=["harness/ir2print_java.py serialiser (fail-closed); tu.get_type_hint / get_function_reference_type and "
                              "the context queries of JavaTranslator are evaluated by the real code at serialisation time (on a copy of "
                              "the program) and enter the model as per-block hints and per-namespace tables",
                              "byte strings: strip / split / \\s of the model act on ASCII white space (other white space is rejected)"])


# ---------------------------------------------------------------------------------------------
def parse_report(s):
    body = s.split(" : ")[0].strip()
    parts = [x.strip() for x in body.strip("()").replace("(", "").replace(")", "").split(",")]
    return [x == "true" if x in ("true", "false") else int(x.split("%")[0]) for x in parts]


REPORT_FIELDS = ["text_equal", "wf", "lex", "clean", "balanced_parens_real_text", "balanced_braces_real_text", "inventory",
                 "erased_variables"]


def run_c12(rep, quick, seed, utils, JT):
    nk = int(os.environ.get("VERIF_C12_JAVA_N", "5" if quick else "60"))
    nfuzz = 40 if quick else 1500
    mutated, crashes, gen_timeouts = [], [], []
    stats = dict(hint_exceptions=0, hint_unprintable=0, nodes=0, kinds={}, rejected_by_serialiser=0)
    t0 = time.time()
    variants = generate_variants(seed, "c12prog", nk, utils, JT, mutated, crashes, gen_timeouts, ("src.pkg", "src.pkg"))
    for o in variants:
        serialise(o, crashes, stats)
    variants = [o for o in variants if o.term is not None]
    t_gen = time.time() - t0
    fuzz_crash = {}
    fuzz = fuzz_variants(seed, "c12jfuzz", nfuzz, utils, JT, fuzz_crash, crashes, stats)

    def text_of(o):
        return next(iter(o.texts["src.pkg"]))

    files, index = [], {}
    for k in range(0, len(variants), 3):
        name = "pj12k_%d" % (k // 3)
        chunk = variants[k:k + 3]
        files.append((name, J.HEADER + "".join("Definition v%d : pprogram := %s.\n" % (o.vid, o.term) for o in chunk) +
                      "".join("Eval vm_compute in (c12_report \"src.pkg\" v%d %s).\n" % (o.vid, P.cstr(text_of(o))) for o in chunk)))
        index[name] = chunk
    for k in range(0, len(fuzz), 20):
        name = "pj12f_%d" % (k // 20)
        chunk = fuzz[k:k + 20]
        files.append((name, J.HEADER + "".join("Eval vm_compute in (c12_report \"src.pkg\" %s %s).\n" % (o.term, P.cstr(text_of(o)))
                                              for o in chunk)))
        index[name] = chunk
    C.clean_cases("pj12")
    tc = time.time()
    coq_res = C.run_case_files(files, timeout=1800)
    t_coq = time.time() - tc

    st = dict(compared=0, mismatches=0, wf=0, lex=0, clean=0, in_hypotheses=0, balanced_real_text=0, inventory_ok=0,
              erased_variables_printed_with_a_type=0, variants_with_erased_variables=0)
    fst = dict(compared=0, mismatches=0, in_hypotheses=0, outside_hypotheses=0)
    queue = []

    def defer(prio, *a, **k):
        queue.append((prio, len(queue), a, k))

    erased_first = None
    for name, _ in files:
        rc, out = coq_res[name]
        if rc != 0:
            defer(5, "case-file", "case file %s did not evaluate: %s" % (name, out[-400:]), dict(broken=name, log=out[-3000:]),
                  no_input=True)
            continue
        for o, v in zip(index[name], C.parse_eval_outputs(out)):
            eq, wf, lex, clean, bp, bb, inv, nerased = parse_report(v)
            directed = o.stage == "directed"
            S = fst if directed else st
            S["compared"] += 1
            if not eq:
                S["mismatches"] += 1
                defer(3, "correspondence", "java %s seed %s: the text of the real JavaTranslator is not the model's print_program"
                      % (o.stage, o.seed), dict(lang="java", seed=o.seed, stage=o.stage, program_bin=_save("C12", o),
                                                broken="correspondence IR.PrintJava.print_program vs JavaTranslator"), no_input=True)
                continue
            hyp = wf and lex and clean
            if directed:
                fst["in_hypotheses" if hyp else "outside_hypotheses"] += 1
                if hyp and not (bp and bb and inv):
                    defer(4, "theorem-vs-evaluation", "java directed tree %s: within the hypotheses but (balanced(), balanced{}, "
                          "inventory) = %s" % (o.seed, (bp, bb, inv)), dict(seed=o.seed, value=[bp, bb, inv], lang="java",
                                                                            program_bin=_save("C12", o)), no_input=True)
                continue
            st["wf"] += wf
            st["lex"] += lex
            st["clean"] += clean
            st["in_hypotheses"] += hyp
            st["balanced_real_text"] += (bp and bb)
            st["inventory_ok"] += inv
            st["erased_variables_printed_with_a_type"] += nerased
            if nerased:
                st["variants_with_erased_variables"] += 1
                if erased_first is None:
                    erased_first = o
            if not wf:
                defer(2, "hypothesis", "java %s seed %s: the program does not have the node shape the theorems assume (wf = false)"
                      % (o.stage, o.seed), dict(lang="java", seed=o.seed, stage=o.stage, program_bin=_save("C12", o), shape="java-not-wf"))
            if hyp and not (bp and bb):
                defer(1, "balance", "java %s seed %s: brackets of the real text are not balanced: () %s, {} %s"
                      % (o.stage, o.seed, bp, bb), dict(lang="java", seed=o.seed, stage=o.stage, program_bin=_save("C12", o),
                                                        shape="java-unbalanced-text"))
            if hyp and not inv:
                defer(1, "inventory", "java %s seed %s: the marked pieces of the text are not the inventory of the program"
                      % (o.stage, o.seed), dict(lang="java", seed=o.seed, stage=o.stage, program_bin=_save("C12", o),
                                                shape="java-inventory"))
    if erased_first is not None:
        o = erased_first
        defer(0, "java-erased-type-printed", "java %s seed %s [model, theorem var_type_printed_even_if_absent]: %d variable declarations "
              "of this run carry no declared type and are printed with one (visit_var_decl prints the inferred type)"
              % (o.stage, o.seed, st["erased_variables_printed_with_a_type"]),
              dict(lang="java", seed=o.seed, stage=o.stage, program_bin=_save("C12", o), shape="java-erased-type-printed",
                   count=st["erased_variables_printed_with_a_type"]))
    for _, _, a, k in sorted(queue, key=lambda q: (q[0], q[1])):
        rep.violation(*a, **k)
    C.clean_cases("pj12")
    return dict(programs=len(variants), directed_trees=len(fuzz), directed_trees_rejected_by_impl=fuzz_crash,
                probe_literal_in_super_arguments=probe_super_literal(utils, JT),
                evaluations=st["compared"] + fst["compared"], model_impl_mismatches=st["mismatches"] + fst["mismatches"],
                java=st, directed=fst, report_fields=REPORT_FIELDS, serialiser=stats,
                generation_abandoned_after_10s=[list(g) for g in gen_timeouts], exceptions=len(crashes),
                exception_samples=[list(c) for c in crashes[:5]], generation_s=round(t_gen, 1), coq_s=round(t_coq, 1),
                rule="Java programs through generate -> erase -> overwrite and random trees; c12_report in Coq per variant (text "
                     "equality, wf, lex, clean, balance of the real text, inventory decision, erased variables)")
