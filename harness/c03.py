"""C03 -- type erasure only removes inferable type information.

What Coq carries: the relation ErasedFrom (only declared variable types, declared return
types and the explicit-type-argument flag of constructor / generic calls may change) with a
decision procedure proved EXACT (erased_from_iff) and its consequences (no type occurrence
is introduced, every node/name/modifier/recorded type stays identical); and the reference
type checker run in INFERENCE mode on the erased program: a local variable whose declared
type was removed gets the type synthesised for its initializer (what a compiler infers),
and every typed position must still be accepted.
Tie: before/after snapshots of the real TypeErasure.transform() on generated programs; per
pair the kernel proves  ErasedFrom before after  and
only_codes erasure_codes (check_program (infer:=true) ... after) = [].
The type-dependency analysis that CHOOSES what to erase (1085 lines) is not modelled; its
output is validated.  Erased return types and erased type arguments are not re-inferred by
the checker (recorded types are used; calls with inferred type arguments are unchecked).
"""
import os
import pickle
import re
import time

import common as C
import tymodel as T
import ir2coq
import progs
import wholeprog as W
import wholecheck


def run(tier, seed, replay=None):
    rep = C.Report("C03", tier, seed, "translation_validation")
    C.setup_repo_import(seed, ["hephaestus.py", "--iterations", "1", "--language", "kotlin"])
    import src.args  # noqa: F401
    from src.transformations.type_erasure import TypeErasure
    T.emit_generated()
    rows = progs.config_table()
    proof_ok = C.proof_part(rep, "IR/Properties_C03.v", ["Generated/Builtins.vo", "IR/Check.vo", "IR/DiffProofs.vo"],
                            ["IR", "Types", "Generated"])
    langs = {l: T.Lang(l) for l in T.LANGS}
    nper = int(os.environ.get("VERIF_C03_N", "20")) if tier == "quick" else 300
    items = []
    crashes = []
    t0 = time.time()
    import glob as globmod
    corpus = sorted(globmod.glob(os.path.join(C.CORPUS, "C03", "*.pkl")))
    work = [("kotlin" if os.path.basename(f).startswith("kotlin") else os.path.basename(f).split("_")[0], -1 - i, f)
            for i, f in enumerate(corpus)]
    for lang in T.LANGS:
        for s in range(nper):
            work.append((lang, C.sub_seed(seed, "c03", lang, s) % (2 ** 31), None))
    for lang, sd, cfile in work:
        L = langs[lang]
        if True:
            progs.set_cfg(rows[0])
            try:
                p = pickle.load(open(cfile, "rb")) if cfile else progs.generate(lang, sd)
                before = ir2coq.Ser(L, p)
                n0 = before.prog()
                te = TypeErasure(p, lang, None, {"timeout": 600})
                te.transform()
                p1 = te.result()
                after = ir2coq.Ser(L, p1)
                after.names, after.classes, after.tvars = dict(before.names), dict(before.classes), dict(before.tvars)
                n1 = after.prog()
            except Exception as e:          # noqa: BLE001
                crashes.append((lang, sd, "%s: %s" % (type(e).__name__, str(e)[:150])))
                continue
            items.append(dict(lang=lang, seed=sd, L=L, n0=n0, n1=n1, ser=after, transformed=bool(te.is_transformed),
                              pickled=pickle.dumps(p1)))
    t_gen = time.time() - t0
    hdr = W.HDR.replace("IR.Check", "IR.Check IR.Diff IR.DiffProofs")
    per = 4

    def defs(chunk):
        d, body = {}, []
        for j, it in enumerate(chunk):
            L = it["L"]
            d[L.lang] = "Definition L_%s : lang := %s.\n" % (L.lang, W.lang_record(L))
            ser = it["ser"]
            cn = [(ser.nid(name), cid) for name, cid in ser.classes.items()]
            rw = W.reserved(L.lang)
            kw = [i for s_, i in ser.names.items() if s_ in rw]
            body.append("Definition a%d : node := %s.\nDefinition b%d : node := %s.\nDefinition cn%d : list (nat*nat) := %s.\nDefinition kw%d : list nat := %s.\n"
                        % (j, ir2coq.coq_node(it["n0"]), j, ir2coq.coq_node(it["n1"]), j, C.clist(cn, lambda p_: "(%d, %d)" % p_), j, C.clist(kw)))
        return "".join(d.values()) + "\n".join(body)

    def chk(it, j, infer):
        return "check_program %s false L_%s cn%d bclasses_%s bt_%s array_%s kw%d b%d" % (
            infer, it["lang"], j, it["lang"], it["lang"], it["lang"], j, j)

    files = []
    for k in range(0, len(items), per):
        chunk = items[k:k + per]
        text = hdr + defs(chunk)
        text += "\nEval vm_compute in [%s].\n" % "; ".join("(if erased_from a%d b%d then 1 else 0, erased_count a%d b%d)" % (j, j, j, j)
                                                           for j in range(len(chunk)))
        for j, it in enumerate(chunk):
            text += "\nEval vm_compute in (only_codes erasure_codes (%s)).\n" % chk(it, j, "true")
        files.append(("c03_%d" % (k // per), text))
    C.clean_cases("c03")
    res = C.run_case_files(files, timeout=1800)
    for k, (name, _) in zip(range(0, len(items), per), files):
        rc, out = res[name]
        chunk = items[k:k + per]
        if rc != 0:
            rep.violation("case-file", "case file %s did not evaluate: %s" % (name, out[-500:]), dict(broken=name, log=out[-3000:]), no_input=True)
            continue
        vals = C.parse_eval_outputs(out)
        pairs = re.findall(r"\((\d+), (\d+)\)", vals[0])
        for j, it in enumerate(chunk):
            it["erased_ok"] = pairs[j][0] == "1"
            it["count"] = int(pairs[j][1])
            it["errs"] = wholecheck.parse_errs(vals[1 + j])
    # kernel certificates
    good = [it for it in items if it.get("erased_ok") and it.get("errs") == []]
    cfiles = []
    for k in range(0, len(good), per):
        chunk = good[k:k + per]
        text = hdr + defs(chunk)
        for j, it in enumerate(chunk):
            text += ("\nTheorem e%d_structural : ErasedFrom a%d b%d.\nProof. apply erased_from_iff. vm_compute. reflexivity. Qed.\n"
                     "Theorem e%d_typable : only_codes erasure_codes (%s) = [].\nProof. vm_compute. reflexivity. Qed.\n"
                     % (j, j, j, j, chk(it, j, "true")))
        cfiles.append(("c03c_%d" % (k // per), text, len(chunk)))
    res2 = C.run_case_files([(n_, t_) for n_, t_, _ in cfiles], timeout=1800)
    ncert = 0
    for n_, t_, cnt in cfiles:
        rc, out = res2[n_]
        if rc == 0:
            ncert += cnt
        else:
            rep.violation("certificate", "kernel did not accept the certificates of %s: %s" % (n_, out[-400:]),
                          dict(broken=n_, log=out[-2000:]), no_input=True)
    C.clean_cases("c03")
    os.makedirs(os.path.join(C.REPLAYS, "C03"), exist_ok=True)
    removed = 0
    hist = {"structural-ok": 0, "structural-violation": 0, "untypable-after-erasure": 0, "nothing-erased": 0}
    for it in items:
        if "erased_ok" not in it:
            continue
        removed += it["count"]
        binp = os.path.join(C.REPLAYS, "C03", "prog-%s-%d.bin" % (it["lang"], it["seed"]))
        if not it["erased_ok"]:
            hist["structural-violation"] += 1
            open(binp, "wb").write(it["pickled"])
            rep.violation("structural", "%s seed %d: the erased program differs from its input in more than removed declared types / "
                          "explicit type arguments" % (it["lang"], it["seed"]),
                          dict(lang=it["lang"], seed=it["seed"], program_bin=binp, shape="structural"))
            continue
        hist["structural-ok"] += 1
        if it["count"] == 0:
            hist["nothing-erased"] += 1
        if it["errs"]:
            hist["untypable-after-erasure"] += 1
            open(binp, "wb").write(it["pickled"])
            path, code, detail = it["errs"][0]
            rep.violation("untypable", "%s seed %d: after erasure the position at node path %s (%s) is no longer accepted when removed "
                          "variable types are replaced by the inferred ones: %s" % (it["lang"], it["seed"], path,
                                                                                   {**wholecheck.TYPING, 25: "erased return type of a function that calls itself", 26: "erased type arguments that nothing determines"}.get(code, code), detail[:300]),
                          dict(lang=it["lang"], seed=it["seed"], program_bin=binp, path=path, code=code, types=detail[:500],
                               shape="untypable"))
    if not proof_ok and not rep.violations:
        rep.violation("proof", rep.proof_broken, dict(broken=rep.proof_broken), no_input=True)
    rep.add(programs=len(items), disagreements_checked=hist["structural-violation"] + hist["untypable-after-erasure"],
            evaluations=len(items), distinct_nontrivial=ncert, pairs_certified_in_kernel=ncert, annotations_removed=removed,
            category_histogram=hist, exceptions=len(crashes), exception_samples=[list(c) for c in crashes[:5]],
            generation_s=round(t_gen, 1),
            rule="generated programs of the four languages, TypeErasure.transform() applied; before/after snapshots serialised node by "
                 "node; distinct_nontrivial = pairs for which the kernel proved ErasedFrom and typability in inference mode",
            samples=[dict(lang=it["lang"], seed=it["seed"], removed=it.get("count")) for it in items[:4]],
            trusted_base=C.TRUSTED_BASE_COMMON + ["harness/ir2coq.py serialiser", "reference checker IR/Check.v (lenient) in inference mode"])
    rep.assumptions = ["which annotations are erased is chosen by the unmodelled type-dependency analysis; validated per program"]
    return rep.finish()
