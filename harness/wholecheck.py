"""C01 / C05: per-program kernel evaluation of the reference checker (coq/IR/Check.v) on
programs produced by the real generator.  Shared driver."""
import os
import pickle
import random
import re
import time

import common as C
import tymodel as T
import ir2coq
import progs
import wholeprog as W
import scopespec

TYPING = {1: "initializer", 2: "call argument", 3: "constructor argument", 4: "super-constructor argument",
          5: "function result", 6: "conditional branch", 7: "assignment", 8: "type argument outside its bound",
          16: "abstract member not implemented", 17: "incompatible override", 18: "inheritance from a final class",
          19: "default value", 20: "condition is not Boolean",
          27: "projection on a type parameter that is the bound of another parameter with a concrete argument",
          28: "type argument of a type occurrence outside its parameter's bound"}
SCOPING = {9: "unresolved variable", 10: "unresolved function", 11: "unresolved field", 12: "unresolved class",
           13: "wrong number of arguments", 14: "assignment to a final variable/field",
           15: "instantiation of a non-regular class", 21: "identifier declared twice in one scope",
           22: "reserved word used as identifier", 23: "non-final local captured by a Java lambda",
           24: "type variable not in scope"}


def split_items(v):
    v = v.strip()
    if v in ("[]", "nil"):
        return []
    items, depth, cur = [], 0, ""
    for ch in v[1:-1]:
        if ch in "([":
            depth += 1
        if ch in ")]":
            depth -= 1
        if ch == ";" and depth == 0:
            items.append(cur.strip())
            cur = ""
        else:
            cur += ch
    if cur.strip():
        items.append(cur.strip())
    return items


def parse_errs(v):
    out = []
    for it in split_items(v.split(" : list err")[0]):
        m = re.match(r"\(\[([0-9; ]*)\], (\d+), (.*)\)$", it, re.S)
        if m:
            out.append(([int(x) for x in m.group(1).split(";") if x.strip()], int(m.group(2)), m.group(3)))
    return out


def generic_bound_classes(node, ser):
    """class ids that have a type parameter whose bound is a parameterized type"""
    out = set()
    inv = {v: k for k, v in ser.names.items()}
    for d in node[5]:
        if d[0] == 1:
            for t in d[4]:
                if t and t != ("none",) and t[0] == "V" and t[3] is not None and t[3][0] == "A":
                    nm = inv.get(d[1])
                    if nm in ser.classes:
                        out.add(ser.classes[nm])
    return out


def dependent_bound_classes(node, ser):
    """class ids that have a type parameter whose bound is a parameterized type mentioning another type parameter"""
    out = set()

    def mentions_var(t):
        if t is None or t == ("none",):
            return False
        if t[0] == "V":
            return True
        if t[0] == "A":
            return any(mentions_var(a) for a in t[2])
        if t[0] == "W":
            return mentions_var(t[2])
        return False
    inv = {v: k for k, v in ser.names.items()}
    for d in node[5]:
        if d[0] == 1:
            for t in d[4]:
                if t and t != ("none",) and t[0] == "V" and t[3] is not None and t[3][0] == "A" and mentions_var(t[3]):
                    nm = inv.get(d[1])
                    if nm in ser.classes:
                        out.add(ser.classes[nm])
    return out


def gen_plan(tier, seed, pid):
    import os
    nper = int(os.environ.get("VERIF_WHOLE_N", "6")) if tier == "quick" else 150          # per language x configuration corner
    plan = []
    for lang in T.LANGS:
        for combo in (0, 15, 5, 10):
            for s in range(nper if combo == 0 else max(1, nper // 3)):
                plan.append((combo, lang, C.sub_seed(seed, "wholeprog", combo, lang, s) % (2 ** 31)))
        # directed stream: seeded contexts + stressed configuration (progs.generate_directed), under two switch corners
        for s in range(nper * 3 + 2 if tier == "quick" else nper):
            plan.append((-1 if s % 3 else -6, lang, C.sub_seed(seed, "wholeprog-directed", lang, s) % (2 ** 31)))
    return plan


def generate_all(plan, rows):
    langs = {l: T.Lang(l) for l in T.LANGS}
    out = []
    fails = []
    for (combo, lang, s) in plan:
        progs.set_cfg(rows[combo] if combo >= 0 else rows[-1 - combo])
        try:
            p = progs.generate_directed(lang, s) if combo < 0 else progs.generate(lang, s)
        except Exception as e:              # noqa: BLE001
            fails.append((combo, lang, s, "%s: %s" % (type(e).__name__, str(e)[:200])))
            continue
        out.append(dict(combo=combo, lang=lang, seed=s, program=p, L=langs[lang]))
    progs.set_cfg(rows[0])
    return out, fails


def evaluate(items, prefix, per=6, strict_too=True):
    """items: list of dicts with L, program.  Adds 'errs', 'unknown', 'nodes', 'ser'."""
    files = []
    for k in range(0, len(items), per):
        chunk = items[k:k + per]
        lang_defs = {}
        body = []
        for j, it in enumerate(chunk):
            L = it["L"]
            lang_defs[L.lang] = "Definition L_%s : lang := %s.\n" % (L.lang, W.lang_record(L))
            try:
                txt, ser, n = W.program_defs(L, it["program"], j)
            except Exception as e:          # noqa: BLE001
                it["ser_error"] = "%s: %s" % (type(e).__name__, str(e)[:200])
                body.append("Definition p%d : node := N 0 0 0 [] [] [].\nDefinition cn%d : list (nat*nat) := [].\nDefinition kw%d : list nat := [].\n" % (j, j, j))
                continue
            it["ser"], it["node"] = ser, n
            it["nodes"] = ir2coq.node_count(n)
            body.append(txt)
        text = W.HDR + "".join(lang_defs.values()) + "\n".join(body)
        for j, it in enumerate(chunk):
            text += "\nEval vm_compute in (%s).\n" % W.check_call(it["L"].lang, j).replace("STRICT", "false").replace("INFER", "false")
        if strict_too:
            text += "\nEval vm_compute in [%s].\n" % "; ".join(
                "List.length (%s)" % W.check_call(it["L"].lang, j).replace("STRICT", "true").replace("INFER", "false") for j, it in enumerate(chunk))
        files.append(("%s_%d" % (prefix, k // per), text))
    C.clean_cases(prefix + "_")
    res = C.run_case_files(files, timeout=1800)
    broken = []
    for k, (name, _) in zip(range(0, len(items), per), files):
        rc, out = res[name]
        chunk = items[k:k + per]
        if rc != 0:
            broken.append((name, out[-800:]))
            for it in chunk:
                it["errs"] = None
            continue
        vals = C.parse_eval_outputs(out)
        for j, it in enumerate(chunk):
            it["errs"] = parse_errs(vals[j])
        if strict_too:
            cnt = C.parse_nat_list(vals[len(chunk)])
            for j, it in enumerate(chunk):
                it["unknown"] = max(0, cnt[j] - len(it["errs"]))
    return broken


SPEC_HDR = {"scoping_codes": "From Heph Require Import IR.CheckSpec IR.Properties_C05_spec.\n",
            "typing_codes": "From Heph Require Import IR.CheckSpec IR.Properties_C01_spec.\n"}


def certify(items, prefix, codes_name, codes, per=6):
    """kernel theorems  only_codes <codes> (check_program ...) = []  for the accepted programs"""
    good = [it for it in items if it.get("errs") is not None and "node" in it and not [e for e in it["errs"] if e[1] in codes]]
    files = []
    for k in range(0, len(good), per):
        chunk = good[k:k + per]
        lang_defs = {}
        body = []
        for j, it in enumerate(chunk):
            L = it["L"]
            lang_defs[L.lang] = "Definition L_%s : lang := %s.\n" % (L.lang, W.lang_record(L))
            txt, _, _ = W.program_defs(L, it["program"], j)
            body.append(txt)
            body.append("Theorem p%d_accepted : only_codes %s (%s) = [].\nProof. vm_compute. reflexivity. Qed.\n"
                        % (j, codes_name, W.check_call(L.lang, j).replace("STRICT", "false").replace("INFER", "false")))
            if codes_name == "scoping_codes":
                body.append("Theorem p%d_tv_closed : TvClosed p%d.\nProof. exact (accepted_program_is_TvClosed _ _ _ _ _ _ _ _ _ p%d_accepted). Qed.\n" % (j, j, j))
            else:
                body.append("Theorem p%d_bounds : forall t, TypeOccurs t p%d -> BoundsRespected false L_%s (world_of (classes_of cn%d p%d) bclasses_%s bt_%s array_%s) "
                            "(classes_of cn%d p%d) t /\\ DepProjOk (classes_of cn%d p%d) t.\nProof. exact (accepted_program_respects_bounds_everywhere _ _ _ _ _ _ _ _ _ p%d_accepted). Qed.\n"
                            % (j, j, L.lang, j, j, L.lang, L.lang, L.lang, j, j, j, j, j))
        files.append(("%sc_%d" % (prefix, k // per), W.HDR + SPEC_HDR[codes_name] + "".join(lang_defs.values()) + "\n".join(body)))
    res = C.run_case_files(files, timeout=1800)
    n = 0
    bad = []
    for k, (name, _) in zip(range(0, len(good), per), files):
        rc, out = res[name]
        if rc == 0:
            n += len(good[k:k + per])
        else:
            bad.append((name, out[-600:]))
    C.clean_cases(prefix)
    return n, bad


def run(pid, codes, tier, seed, what):
    rep = C.Report(pid, tier, seed, "translation_validation")
    C.setup_repo_import(seed, ["hephaestus.py", "--iterations", "1", "--language", "kotlin"])
    import src.args  # noqa: F401
    T.emit_generated()
    rows = progs.config_table()
    progs.emit_config(rows)
    proof_ok = C.proof_part(rep, "IR/Properties_%s.v" % pid, ["Generated/Builtins.vo", "IR/Check.vo"], ["IR", "Types", "Generated"])
    # the declarative specifications of the self-contained sub-checkers (IR/CheckSpec.v) and their iff theorems
    proof_ok = scopespec.spec_proof(rep, pid) and proof_ok
    plan = gen_plan(tier, seed, pid)
    t0 = time.time()
    items, fails = generate_all(plan, rows)
    t_gen = time.time() - t0
    broken = evaluate(items, pid.lower())
    ncert, cbad = certify(items, pid.lower(), "typing_codes" if pid == "C01" else "scoping_codes", codes)
    if pid == "C05":
        scopespec.run(rep, items, seed, tier)
    os.makedirs(os.path.join(C.REPLAYS, pid), exist_ok=True)
    nviol = 0
    hist = {}
    unknown = 0
    nodes = 0
    other_codes = 0
    for it in items:
        if it.get("ser_error"):
            rep.violation("serialise", "%s seed %d: program cannot be serialised: %s" % (it["lang"], it["seed"], it["ser_error"]),
                          dict(lang=it["lang"], seed=it["seed"], combo=it["combo"], error=it["ser_error"],
                               broken="ir2coq serialiser (fail-closed)"), no_input=True)
            continue
        if it.get("errs") is None:
            continue
        unknown += it.get("unknown", 0)
        nodes += it.get("nodes", 0)
        mine = [e for e in it["errs"] if e[1] in codes]
        other_codes += len(it["errs"]) - len(mine)
        for path, code, detail in mine:
            hist[codes[code]] = hist.get(codes[code], 0) + 1
        if mine:
            nviol += 1
            binp = os.path.join(C.REPLAYS, pid, "prog-%s-%d-%d.bin" % (it["lang"], it["combo"], it["seed"]))
            open(binp, "wb").write(pickle.dumps(it["program"]))
            dep = dependent_bound_classes(it["node"], it["ser"])
            gen = generic_bound_classes(it["node"], it["ser"])
            inv_kind = {v: k for k, v in ir2coq.K.items()}
            seen_kinds = set()
            for path, code, detail in mine:
                kind = codes[code]
                mm = re.findall(r"TApp (\d+) ", detail)
                if code in (1, 2, 3, 5, 6, 7) and len(mm) >= 2 and re.match(r"Some \(TApp (\d+) ", detail) and \
                        len({m_ for m_ in re.findall(r"Some \(TApp (\d+) ", detail)}) == 1 and int(mm[0]) in dep:
                    kind = "dependent-generic-bound"
                if code == 28 and mm and int(mm[0]) in gen:
                    kind = "typearg-outside-generic-bound"
                if kind in seen_kinds:
                    continue
                seen_kinds.add(kind)
                nd = W.node_at(it["node"], path)
                nm = [k for k, v in it["ser"].names.items() if nd and v == nd[1]]
                rep.violation(kind, "%s (switch combination %d, seed %d): %s at node path %s (%s%s): %s" % (
                    it["lang"], it["combo"], it["seed"], codes[code], path,
                    inv_kind.get(nd[0]) if nd else "?", " " + nm[0] if nm else "", detail[:300]),
                    dict(lang=it["lang"], combo=it["combo"], seed=it["seed"], program_bin=binp, shape=kind,
                         errors=[dict(path=p_, code=c_, what=codes[c_], types=d_[:400]) for p_, c_, d_ in mine[:10]]))
    if pid == "C05":
        # the mechanism behind "never a reserved word": after the per-program reset the identifier pool
        # contains no word one of whose forms (as is / lower / capitalized) is reserved
        from src import utils
        for lang in T.LANGS:
            rw = W.reserved(lang)
            if not rw:
                continue
            progs.generate_setup(lang, 1)
            utils.random.reset_word_pool()
            badw = sorted(w for w in utils.random.WORDS if w in rw or w.lower() in rw or w.capitalize() in rw)
            if badw:
                rep.violation("reserved-word-pool", "%s: after reset_word_pool the identifier pool contains reserved words %s" % (lang, badw[:5]),
                              dict(lang=lang, words=badw[:20]))
    for name, out in broken:
        rep.violation("case-file", "case file %s did not evaluate: %s" % (name, out[-400:]), dict(broken=name, log=out), no_input=True)
    for name, out in cbad:
        rep.violation("certificate", "kernel did not accept the certificates of %s: %s" % (name, out[-400:]),
                      dict(broken=name, log=out), no_input=True)
    for (combo, lang, s, err) in fails[:3]:
        rep.add(generator_failures=[list(f) for f in fails[:5]])
    if not proof_ok and not rep.violations:
        rep.violation("proof", rep.proof_broken, dict(broken=rep.proof_broken), no_input=True)
    lh = {}
    for it in items:
        lh[it["lang"]] = lh.get(it["lang"], 0) + 1
    rep.add(programs=len(items), disagreements_checked=nviol, programs_accepted_in_kernel=ncert,
            evaluations=len(items), distinct_nontrivial=ncert,
            spec_certificates=dict(count=ncert, statement=(
                "TvClosed p  (IR/CheckSpec.v, from accepted_program_is_TvClosed applied to the program's acceptance theorem)" if pid == "C05" else
                "forall t, TypeOccurs t p -> BoundsRespected false L w cs t /\\ DepProjOk cs t  (IR/CheckSpec.v, from "
                "accepted_program_respects_bounds_everywhere applied to the program's acceptance theorem)")), ast_nodes=nodes, unchecked_positions=unknown,
            errors_of_other_property=other_codes, error_histogram=hist, language_histogram=lh,
            generator_failed=len(fails), generation_s=round(t_gen, 1),
            rule="programs from the real generator for the 4 languages x 4 switch corners (none, all, two mixed); each is serialised "
                 "node by node (fail-closed) and the reference checker is evaluated on it inside Coq; accepted programs get a "
                 "kernel-checked theorem check_program ... = []. %s" % what,
            samples=[dict(lang=it["lang"], combo=it["combo"], seed=it["seed"], nodes=it.get("nodes"), unchecked=it.get("unknown"))
                     for it in items[:4]],
            trusted_base=C.TRUSTED_BASE_COMMON + [
                "coq/IR/Check.v is the executable reference checker (lenient: positions it cannot type are counted in "
                "unchecked_positions, never rejected)", "harness/ir2coq.py serialiser (fail-closed)"])
    rep.assumptions = ["'for all seeds' is sampled; the generator's control flow is not modelled"]
    return rep.finish()
