"""C05 -- generated programs are closed and respect scoping and mutability rules.  See wholecheck.py."""
import wholecheck


def run(tier, seed, replay=None):
    return wholecheck.run("C05", wholecheck.SCOPING, tier, seed,
                          "C05 judges the scoping codes: unresolved variable/function/field/class, argument count, assignment "
                          "to final, instantiation of a non-regular class, duplicate identifier, reserved word, Java lambda capture.")
