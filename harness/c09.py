"""C09 -- subtype search and irrelevant-type search return only what they promise.

What Coq carries: the declarative relation SubA and its executable checker sub_ref, proved
sound for both answers (C06: sub_ref_yes_sound / sub_ref_no_sound).  The deterministic skeleton of
the searches (_find_types / find_subtypes / find_supertypes / to_type / find_irrelevant_type) IS
modelled (Types/Search.v, theorems in Types/Properties_C09_search.v) with the randomised helpers
(_construct_related_types, instantiate_type_constructor, choose_type, random.choice,
get_irrelevant_parameterized_type) as oracle arguments; harness/c09_search.py records every call of
the real functions made on this run together with the values those helpers returned and compares
the model's answer.  The helpers themselves (~250 lines of randomised construction) are NOT
modelled; every result the searches return on this run is validated instead: for each returned
type the kernel proves the SubA derivation (translation validation through a verified
checker), usability (no bare constructor when concrete types are requested), self-inclusion,
and for irrelevant types the refutation of both directions.
"""
import json
import os
import random
import re

import common as C
import tymodel as T
import c09_search as S

CODES = {5: "reference-out-of-fuel", 8: "bare-constructor", 9: "self-inclusion", 40: "irrelevant-for-top"}
SHAPES = {1: "core", 2: "projection", 3: "tyvar", 7: "ill-formed"}


def code_kind(c):
    if c in CODES:
        return CODES[c]
    if 10 <= c < 20:
        return "not-a-subtype-" + SHAPES.get(c - 10, str(c))
    if 20 <= c < 30:
        return "irrelevant-is-subtype-" + SHAPES.get(c - 20, str(c))
    if 30 <= c < 40:
        return "irrelevant-is-supertype-" + SHAPES.get(c - 30, str(c))
    return str(c)


def _has_star(t):
    if not isinstance(t, (list, tuple)) or not t:
        return False
    if t[0] == "W":
        return t[2] is None or _has_star(t[2])
    if t[0] == "A":
        return any(_has_star(a) for a in t[2])
    if t[0] == "V":
        return t[3] is not None and _has_star(t[3])
    return False


def _descends(table, sub, sup, depth=0):
    """class id `sub` has class id `sup` among its (transitive) declared superclasses"""
    if sub == sup:
        return True
    ent = table.get(str(sub)) or table.get(sub)
    if not ent or depth > 20:
        return False
    for st in ent[1]:
        if st and st[0] in ("A", "C") and isinstance(st[1], int) and _descends(table, st[1], sup, depth + 1):
            return True
    return False


@C.matcher("c09_star_query")
def _m_star(detail, kf):
    """find_irrelevant_type on a type with a star projection returns an instantiation of the same class or of a
    generic subclass of it"""
    c = detail.get("case")
    if not (bool(c) and c[0] == "irr" and _has_star(c[1]) and c[2] is not None and c[2][0] == "A" and c[1][0] == "A"):
        return False
    return _descends(detail.get("table") or {}, c[2][1], c[1][1])


def pool_objects(L, b, tab):
    objs = []
    for cid in sorted(tab):
        objs.append(b.cls(cid))
    objs += [t for t in L.factory.get_non_nothing_types()]
    return objs


def run(tier, seed, replay=None):
    rep = C.Report("C09", tier, seed, "translation_validation")
    C.setup_repo_import(seed)
    T.emit_generated()
    from src.ir import type_utils as tu
    from src import utils
    proof_ok = C.proof_part(rep, "Types/Properties_C09.v", ["Generated/Builtins.vo", "Types/Judge09.vo"],
                            ["Types", "Generated"])
    # the model of the searches (Types/Search.v) and its theorems
    proof_ok = C.proof_part_extra(rep, C.check_properties_file("Types/Properties_C09_search.v",
                                                               ["Types/SearchCorr.vo"])) and proof_ok
    rng = random.Random(C.sub_seed(seed, "c09"))
    utils.random.r.seed(C.sub_seed(seed, "c09-impl"))
    langs = {l: T.Lang(l) for l in T.LANGS}
    groups = []
    ntab = 100 if tier == "quick" else 2500
    nq = 0
    nres = 0
    crashes = []
    ndir = 32 if tier == "quick" else 400
    recorder = S.Recorder(tu, utils, max_nested=30 if tier == "quick" else 60)
    sgroups = []
    sdropped = 0
    recorder.install()
    try:
        sdropped = _explore(rng, tier, langs, tu, ntab, ndir, groups, crashes, recorder, sgroups)
    finally:
        recorder.uninstall()
    nq = sum(len(g[3]) for g in groups)
    nres = sum((len(c[4]) if c[0] == "sub" else 1) for g in groups for c in g[3])
    return _judge(rep, tier, proof_ok, groups, crashes, nq, nres, recorder, sgroups, sdropped)


def _explore(rng, tier, langs, tu, ntab, ndir, groups, crashes, recorder, sgroups):
    nq = 0
    nres = 0
    sdropped = 0
    for i in range(ntab + ndir):
        lang = T.LANGS[i % 4]
        L = langs[lang]
        is_dir = i >= ntab
        if is_dir and i % 3 == 0:
            # deep nominal hierarchies whose generic classes are only INDIRECT subclasses: K1 <- K2 <- K3<T> (<- K4<T>), Other
            g3 = ("V", 30, rng.choice([0, 0, 1]), None)
            tab = {1: ([], []), 2: ([], [("C", 1)]), 3: ([g3], [("C", 2)]), 5: ([], [])}
            if rng.random() < 0.5:
                tab[4] = ([("V", 40, 0, None)], [("A", 3, [("V", 40, 0, None)])])
            if rng.random() < 0.5:
                tab[6] = ([("V", 60, 0, None)], [])
        elif is_dir:
            # dependent-bound tables: Foo, Bar : Foo, Box<T>, X<v1 T1, v2 T2 : T1 | Box<T1>> (+ a generic subclass of X)
            v1, v2 = rng.choice([0, 1, 2]), rng.choice([0, 1, 2])
            t1 = ("V", 40, v1, None)
            bnd = t1 if rng.random() < 0.5 else ("A", 3, [t1])
            tab = {1: ([], []), 2: ([], [("C", 1)]), 3: ([("V", 30, 0, None)], []),
                   4: ([t1, ("V", 41, v2, bnd)], [("C", 1)] if rng.random() < 0.3 else [])}
            if rng.random() < 0.4 and bnd is t1:
                tab[5] = ([("V", 50, 0, None)], [("A", 4, [("V", 50, 0, None), ("V", 50, 0, None)])])
        else:
            tab = T.gen_table(rng, L, conforming=True)
        b = T.Builder(L, tab)
        pool = pool_objects(L, b, tab)
        frames = recorder.begin_group()
        cases = []
        qobjs = []
        directed = []
        for cid_, (ps_, _) in tab.items():
            # class Foo<X, Y : X>: queries Foo<A, in A>, Foo<A, A>, Foo<A, out A> with A a type that has subtypes
            for k_, p_ in enumerate(ps_):
                if p_[3] is not None and p_[3][0] == "V" and any(q[1] == p_[3][1] for q in ps_[:k_]):
                    base = [("C", c2) for c2 in tab if not tab[c2][0] and any(("C", c2) in tab[c3][1] for c3 in tab)] + \
                        [t_ for t_ in L.builtin_terms(prims=False) if L.info[t_[1]]["name"] == "NumberType"]
                    if base:
                        a_ = rng.choice(base)
                        for wrap in (("W", 2, a_), a_, ("W", 1, a_)):
                            args_ = [a_ if q[1] == p_[3][1] else (wrap if q is p_ else a_) for q in ps_]
                            directed.append(("A", cid_, args_))
                # class Foo<out X, Y : Box<X>>: queries Foo<A, Box<A>>, Foo<A, out Box<A>> with A a type that has subtypes
                if p_[3] is not None and p_[3][0] == "A" and len(p_[3][2]) == 1 and p_[3][2][0][0] == "V" and \
                        any(q[1] == p_[3][2][0][1] for q in ps_[:k_]):
                    base = [("C", c2) for c2 in tab if not tab[c2][0] and any(("C", c2) in tab[c3][1] for c3 in tab)] + \
                        [t_ for t_ in L.builtin_terms(prims=False) if L.info[t_[1]]["name"] == "NumberType"]
                    if base:
                        a_ = rng.choice(base)
                        boxed = ("A", p_[3][1], [a_])
                        for wrap in (boxed, ("W", 1, boxed)):
                            args_ = [a_ if q[1] == p_[3][2][0][1] else (wrap if q is p_ else a_) for q in ps_]
                            directed.append(("A", cid_, args_))
        if is_dir and i % 3 == 0:
            directed = [("C", 1), ("C", 2), ("C", 5), ("A", 3, [("C", 5)])] * 4
        elif is_dir:
            directed = directed * 3         # the searches draw at random: ask each directed query several times
        nrand = 3 if is_dir else 12
        for qi in range(nrand + len(directed)):
            t = directed[qi - nrand] if qi >= nrand else T.gen_type(rng, L, tab, rng.choice([0, 1, 2]), [])
            if t[0] in ("N", "K") or T.nested_nothing(t):
                continue
            if t[0] == "B" and L.info[t[1]]["bottom"]:
                continue                    # the bottom type has no irrelevant type / no proper subtype
            if T.has_prim_arg(t):
                continue                    # primitives are not type arguments (_get_available_types boxes them)
            try:
                o = b.obj(t)
                if not T.well_bounded(L, b, o):
                    continue                # an argument outside its parameter's bound: not a type
            except Exception:               # noqa: BLE001
                continue
            inc, conc = rng.random() < 0.5, rng.random() < 0.6
            qobjs.append(o)
            try:
                if rng.random() < 0.65:
                    rs = tu.find_subtypes(o, pool, include_self=inc, concrete_only=conc)
                    cases.append(("sub", t, inc, conc, [T.reify(L, r) for r in rs]))
                    nres += len(rs)
                else:
                    r = tu.find_irrelevant_type(o, pool, L.factory)
                    cases.append(("irr", t, None if r is None else T.reify(L, r)))
                    nres += 1
                nq += 1
            except Exception as e:          # noqa: BLE001
                crashes.append((lang, t, type(e).__name__ + ": " + str(e)[:100]))
        groups.append((lang, tab, L.any_bid, cases))
        # find_supertypes with a greatest bound is otherwise reached only from inside the searches: a few direct calls
        # (recorded for the model correspondence only; a bound drawn among the query's own supertypes, or none)
        for o_ in qobjs[:5]:
            try:
                sups_ = sorted(o_.get_supertypes(), key=str)
                bd_ = rng.choice(sups_ + [None])
                tu.find_supertypes(o_, pool, include_self=rng.random() < 0.5, bound=bd_, concrete_only=rng.random() < 0.5)
            except Exception:               # noqa: BLE001
                pass
        # recorded calls of this table (the queries above and every call the searches issued themselves)
        recorder.group = None
        pool_terms = [T.reify(L, o_) for o_ in pool]
        scases = []
        for fr in frames:
            try:
                sc = S.frame_case(L, fr, pool_terms)
            except Exception:               # noqa: BLE001  (an object outside the term language)
                sc = None
            if sc is None:
                sdropped += 1
            else:
                scases.append(sc)
        sgroups.append((lang, tab, L.any_bid, pool_terms, scases))
    return sdropped


def _judge(rep, tier, proof_ok, groups, crashes, nq, nres, recorder, sgroups, sdropped):
    def ccase(c):
        if c[0] == "sub":
            return "CSub %s %s %s %s" % (T.cterm(c[1]), C.cbool(c[2]), C.cbool(c[3]), C.clist(c[4], T.cterm))
        return "CIrr %s %s" % (T.cterm(c[1]), "None" if c[2] is None else "(Some %s)" % T.cterm(c[2]))

    hdr = (C.CASE_HEADER + "From Coq Require Import List Arith Bool.\nImport ListNotations.\n"
           "From Heph Require Import Types.Syntax Types.Subst Types.Subtype Types.Decl Types.Corr Types.Judge Types.Judge09 "
           "Types.RefSound Generated.Builtins.\n")
    files = []
    for k, (lang, tab, anyb, cases) in enumerate(groups):
        w = "{| w_ct := %s ++ bclasses_%s; w_bt := bt_%s; w_array := array_%s |}" % (T.coq_ctable(tab), lang, lang, lang)
        body = ["Definition w : world := %s." % w,
                "Definition cs : list case09 := [\n%s\n]." % ";\n".join(ccase(c) for c in cases),
                "Eval vm_compute in (judge09_all w %d 60 0 cs)." % anyb]
        # kernel certificates: one SubA theorem per returned subtype that the checker accepts is
        # produced in a second pass (below) once the verdicts are known
        files.append(("c09_%d" % k, hdr + "\n".join(body) + "\n"))
    C.clean_cases("c09_")
    res = C.run_case_files(files, timeout=1200)
    verdicts = {}
    for k, (name, _) in enumerate(files):
        rc, out = res[name]
        if rc != 0:
            rep.violation("case-file", "case file %s did not evaluate: %s" % (name, out[-600:]),
                          dict(broken=name, log=out[-3000:]), no_input=True)
            continue
        body = C.parse_eval_outputs(out)[-1].split(" : ")[0]
        verdicts[k] = [tuple(int(x) for x in m) for m in re.findall(r"\((\d+),\s*(\d+),\s*(\d+)\)", body)]
    # second pass: kernel-checked derivations for every accepted result
    cert_files = []
    ncert_planned = 0
    for k, (lang, tab, anyb, cases) in enumerate(groups):
        if k not in verdicts:
            continue
        badset = {(ci, j) for ci, j, c in verdicts[k]}
        w = "{| w_ct := %s ++ bclasses_%s; w_bt := bt_%s; w_array := array_%s |}" % (T.coq_ctable(tab), lang, lang, lang)
        thms = []
        for ci, c in enumerate(cases):
            if c[0] == "sub":
                for j, r in enumerate(c[4]):
                    if (ci, j + 1) in badset or r[0] == "K":
                        continue
                    thms.append("Theorem r_%d_%d : SubA w [] %s %s.\nProof. apply sub_ref_yes_sound_lem with (fuel := 60). vm_compute. reflexivity. Qed."
                                % (ci, j, T.cterm(r), T.cterm(c[1])))
            elif c[2] is not None and (ci, 0) not in badset:
                t2 = c[1][3] if c[1][0] == "V" and c[1][3] is not None else c[1]
                thms.append("Theorem i_%d : ~ SubA w [] %s %s /\\ ~ SubA w [] %s %s.\nProof. split; apply sub_ref_no_sound_lem with (fuel := 60); vm_compute; reflexivity. Qed."
                            % (ci, T.cterm(c[2]), T.cterm(t2), T.cterm(t2), T.cterm(c[2])))
        ncert_planned += len(thms)
        if thms:
            cert_files.append(("c09c_%d" % k, hdr + "Definition w : world := %s.\n" % w + "\n".join(thms) + "\n", len(thms)))
    res2 = C.run_case_files([(n, t) for n, t, _ in cert_files], timeout=1500)
    ncert = 0
    for n, t, cnt in cert_files:
        rc, out = res2[n]
        if rc == 0:
            ncert += cnt
        else:
            rep.violation("certificate", "kernel did not accept the derivations of %s: %s" % (n, out[-500:]),
                          dict(broken=n, log=out[-2500:]), no_input=True)
    C.clean_cases("c09")
    hist = {}
    for k, vs in verdicts.items():
        lang, tab, anyb, cases = groups[k]
        for ci, j, code in vs:
            kind = code_kind(code)
            hist[kind] = hist.get(kind, 0) + 1
            if code == 5:
                continue
            c = cases[ci]
            what = ("%s: find_subtypes(%s, include_self=%s, concrete_only=%s) returns %s [%s]" % (
                lang, T.cterm(c[1]), c[2], c[3], "-" if j == 0 else T.cterm(c[4][j - 1]), kind)) if c[0] == "sub" else (
                "%s: find_irrelevant_type(%s) returns %s [%s]" % (lang, T.cterm(c[1]), T.cterm(c[2]), kind))
            rep.violation(kind, what, dict(lang=lang, table={kk: list(v) for kk, v in tab.items()}, case=list(c), shape=kind))
    # an exception returns nothing, so it cannot violate "every type returned ..."; internal failures are
    # C18's subject.  They are counted in the evidence (coverage.exceptions / exception_samples).
    rep.add(exception_samples=[dict(lang=l_, term=T.cterm(t_), error=e_) for l_, t_, e_ in crashes[:5]])
    # model correspondence of the searches themselves (Types/Search.v against the recorded calls)
    import time as _time
    t_s = _time.time()
    scov = S.evaluate(rep, sgroups)
    scov["search_eval_wall_s"] = round(_time.time() - t_s, 1)
    scov["search_calls_dropped_oracle_raised_or_unreifiable"] = sdropped
    scov["search_calls_seen"] = dict(recorder.stats)
    rep.add(**scov)
    if not proof_ok and not rep.violations:
        rep.violation("proof", rep.proof_broken, dict(broken=rep.proof_broken), no_input=True)
    rep.add(programs=nq, queries=nq, results=nres, evaluations=nres, distinct_nontrivial=ncert,
            disagreements_checked=sum(len(v) for v in verdicts.values()),
            kernel_certificates=ncert, kernel_certificates_planned=ncert_planned, verdict_histogram=hist,
            exceptions=len(crashes),
            rule="random class tables; 12 query types per table (depth <= 2, projections included); 65% find_subtypes with random "
                 "include_self/concrete_only, 35% find_irrelevant_type; the pool is the table's classes plus the language's built-in "
                 "types. 'programs' counts queries. distinct_nontrivial = results whose derivation / refutation was checked by the kernel",
            samples=[dict(lang=groups[0][0], case=[str(x) for x in groups[0][3][0]])] if groups and groups[0][3] else [dict(note="no case")],
            trusted_base=C.TRUSTED_BASE_COMMON + [
                "the randomised helpers of the searches (_construct_related_types, instantiate_type_constructor, choose_type, "
                "get_irrelevant_parameterized_type) are not modelled: they enter the search model (Types/Search.v) as oracle answers "
                "recorded from the real run, and each explored result is validated by the proved-sound reference checker (sub_ref) in the kernel"])
    rep.assumptions = ["validation covers the queries explored by this run (synthetic tables), not all inputs"]
    return rep.finish()
