"""Directed small programs for the mutation checks (C04, C03): shapes the random generator
produces rarely but the transformations must handle -- deep nominal hierarchies with generic
classes that are only INDIRECT subclasses, generic classes with several type parameters
instantiated with equal type arguments, of which only one is constrained by the context.
Everything is drawn from one random.Random, so a (language, seed) pair replays exactly."""
import random


def build(lang, seed):
    from src.ir import ast, types as tp, context as ctx
    from src.ir import BUILTIN_FACTORIES
    rng = random.Random(seed)
    f = BUILTIN_FACTORIES[lang]
    unit = f.get_void_type()
    context = ctx.Context()
    G = ast.GLOBAL_NAMESPACE
    classes = []

    def add_class(c, fields=()):
        context.add_class(G, c.name, c)
        for fd in fields:
            context.add_var(G + (c.name,), fd.name, fd)
        classes.append(c)

    a_cls = ast.ClassDeclaration("Aa", [], ast.ClassDeclaration.REGULAR)
    b_cls = ast.ClassDeclaration("Bb", [], ast.ClassDeclaration.REGULAR)
    add_class(a_cls)
    add_class(b_cls)
    a_t, b_t = a_cls.get_type(), b_cls.get_type()
    # chain C0 <- C1 <- ... ; deeper classes may be generic (their parameter is not passed up)
    depth = rng.randint(2, 4)
    chain = []          # (decl, instantiate: list of types -> type, n type params)
    for i in range(depth):
        tps = []
        if i > 0 and rng.random() < 0.6:
            tps = [tp.TypeParameter("T%d" % i)]
        supers = []
        if i > 0:
            pdecl, pn = chain[-1]
            pt = pdecl.get_type()
            if pn:
                pt = pt.new([rng.choice([a_t, b_t])])
            supers = [ast.SuperClassInstantiation(pt, [])]
        c = ast.ClassDeclaration("C%d" % i, supers, ast.ClassDeclaration.REGULAR, is_final=(i == depth - 1),
                                 type_parameters=tps)
        add_class(c)
        chain.append((c, len(tps)))

    def inst(i, arg=None):
        # a fresh type object on every call: the mutation rewrites type_args in place
        c, n = chain[i]
        t = c.get_type()
        return t.new([arg or rng.choice([a_t, b_t])]) if n else t

    t1, t2 = tp.TypeParameter("U1"), tp.TypeParameter("U2")
    fld = ast.FieldDeclaration("fl", field_type=t2)
    c0_t = chain[0][0].get_type()
    foo = ast.ClassDeclaration("Foo", [ast.SuperClassInstantiation(c0_t, [])], ast.ClassDeclaration.REGULAR,
                               fields=[fld], type_parameters=[t1, t2])
    add_class(foo, [fld])

    stmts, decls = [], []
    va = ast.VariableDeclaration("va", ast.New(a_t, []), var_type=a_t)
    stmts.append(va)
    decls.append(va)
    for k in range(rng.randint(1, 3)):
        i = rng.randrange(depth)
        j = rng.randint(i, depth - 1)
        # declared type: the plain or instantiated class C_i; value: an instance of a (possibly indirect) subclass
        arg = rng.choice([a_t, b_t])
        vt = inst(j, arg)
        dt = inst(j, arg) if (i == j or chain[i][1]) else chain[i][0].get_type()
        v = ast.VariableDeclaration("vx%d" % k, ast.New(vt, []), var_type=dt)
        stmts.append(v)
        decls.append(v)
    first = a_t if rng.random() < 0.6 else b_t
    new = ast.New(foo.get_type().new([first, a_t]), [ast.Variable("va")])
    new.class_type.type_args = list(new.class_type.type_args)
    vy = ast.VariableDeclaration("vy", new, var_type=c0_t if rng.random() < 0.7 else foo.get_type().new([first, a_t]))
    stmts.append(vy)
    decls.append(vy)
    body = ast.Block(stmts)
    func = ast.FunctionDeclaration("test", [], unit, body, ast.FunctionDeclaration.FUNCTION)
    context.add_func(G, func.name, func)
    for d in decls:
        context.add_var(G + (func.name,), d.name, d)
    return ast.Program(context, lang)
