"""C01 -- generated programs are well-typed (the pass oracle).  See wholecheck.py."""
import wholecheck


def run(tier, seed, replay=None):
    return wholecheck.run("C01", wholecheck.TYPING, tier, seed,
                          "C01 judges the typing codes: initializer, call/constructor/super-constructor argument, function "
                          "result, conditional branch, assignment, type-argument bound, inheritance obligations.")
