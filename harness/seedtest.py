"""Confirm a seeded mutation and run the property's check against it.

usage: seedtest.py <property id> <dir with patch.diff demo.py notes.txt> [<dest name>]
  1. worktree of /repo HEAD under /tmp: demo passes unchanged; with the patch the 161 tests
     pass and the demo fails
  2. applies the patch to /repo, runs ./check <id> (quick), reverts /repo
  3. stores the mutation under /verif/seeded/<dest>/ with meta.json
"""
import json
import os
import shutil
import subprocess as sp
import sys
import time

VERIF = os.path.dirname(os.path.dirname(os.path.abspath(__file__)))


def sh(cmd, cwd=None, env=None, timeout=1800):
    p = sp.run(cmd, cwd=cwd, env=env, shell=True, stdout=sp.PIPE, stderr=sp.STDOUT, text=True, timeout=timeout)
    return p.returncode, p.stdout


def main():
    pid, src = sys.argv[1], sys.argv[2]
    dest = sys.argv[3] if len(sys.argv) > 3 else "%s-%s" % (pid, os.path.basename(src.rstrip("/")))
    patch = os.path.join(src, "patch.diff")
    demo = os.path.join(src, "demo.py")
    wt = "/tmp/seedwt_%d" % os.getpid()
    sh("git -C /repo worktree add -q --detach %s HEAD" % wt)
    meta = dict(property=pid, source=src, ran=[])
    try:
        env = dict(os.environ, PYTHONPATH=wt, REPO_ROOT=wt, PYTHONHASHSEED="0")
        env.pop("HEPHAESTUS_VERIF", None)
        rc0, out0 = sh("/venv/bin/python %s" % demo, cwd=wt, env=env)
        meta["demo_unchanged_rc"] = rc0
        rc, out = sh("git apply %s" % patch, cwd=wt)
        meta["apply_rc"] = rc
        rct, outt = sh("/venv/bin/python -m pytest -q -p no:cacheprovider 2>&1 | tail -1", cwd=wt, env=env)
        meta["tests_with_patch"] = outt.strip()
        rc1, out1 = sh("/venv/bin/python %s" % demo, cwd=wt, env=env)
        meta["demo_patched_rc"] = rc1
        meta["demo_patched_tail"] = out1[-400:]
    finally:
        sh("git -C /repo worktree remove --force %s" % wt)
    confirmed = (meta["demo_unchanged_rc"] == 0 and meta["apply_rc"] == 0 and "161 passed" in meta["tests_with_patch"]
                 and meta["demo_patched_rc"] != 0)
    meta["confirmed"] = confirmed
    # run the check against /repo with the patch applied
    detected = None
    scratch = os.environ.get("SEED_SCRATCH")
    if confirmed and scratch:
        # scratch copies of /verif and /repo: neither is touched (other checks may be running there)
        sv, sr = "/tmp/seedv_%d" % os.getpid(), "/tmp/seedr_%d" % os.getpid()
        sh("rsync -a --exclude replays --exclude .git %s/ %s/" % (VERIF, sv))
        sh("git clone -q /repo %s" % sr)
        rc, out = sh("git -C %s apply %s" % (sr, patch))
        try:
            t0 = time.time()
            rc, out = sh("VERIF_REPO=%s ./check %s --tier quick" % (sr, pid), cwd=sv, timeout=3000)
            meta["check_rc"] = rc
            meta["check_wall_s"] = round(time.time() - t0, 1)
            lines = [l for l in out.splitlines() if l.startswith(("VIOLATION", "KNOWN-FINDING", "OK ", "CHECK-ERROR"))]
            viol = [l for l in out.splitlines() if "violation:" in l][:3]
            meta["check_lines"] = lines
            meta["check_first_violations"] = [v[:300] for v in viol]
            detected = (rc == 1 and any(l.startswith("VIOLATION") for l in lines))
        finally:
            shutil.rmtree(sv, ignore_errors=True)
            shutil.rmtree(sr, ignore_errors=True)
    elif confirmed:
        assert sh("git -C /repo status --porcelain")[1].strip() == "", "/repo is dirty"
        rc, out = sh("git -C /repo apply %s" % patch)
        try:
            t0 = time.time()
            rc, out = sh("./check %s --tier quick" % pid, cwd=VERIF, timeout=3000)
            meta["check_rc"] = rc
            meta["check_wall_s"] = round(time.time() - t0, 1)
            lines = [l for l in out.splitlines() if l.startswith(("VIOLATION", "KNOWN-FINDING", "OK ", "CHECK-ERROR"))]
            viol = [l for l in out.splitlines() if "violation:" in l][:3]
            meta["check_lines"] = lines
            meta["check_first_violations"] = [v[:300] for v in viol]
            detected = (rc == 1 and any(l.startswith("VIOLATION") for l in lines))
        finally:
            sh("git -C /repo checkout -- .")
    meta["detected_by_quick_check"] = detected
    d = os.path.join(VERIF, "seeded", dest)
    os.makedirs(d, exist_ok=True)
    shutil.copy(patch, os.path.join(d, "patch.diff"))
    shutil.copy(demo, os.path.join(d, "demo.py"))
    notes = os.path.join(src, "notes.txt")
    if os.path.exists(notes):
        meta["needs_to_manifest"] = open(notes).read()
    meta["what_was_run"] = ("fresh worktree of /repo HEAD: demo.py on the unchanged tree (must exit 0); git apply patch.diff; "
                            "pytest -q (161 must pass); demo.py (must fail); then patch applied to /repo (or, with SEED_SCRATCH, to a scratch clone "
                            "of /repo checked from a scratch copy of /verif), ./check %s --tier quick, git checkout -- ." % pid)
    json.dump(meta, open(os.path.join(d, "meta.json"), "w"), indent=1)
    print(json.dumps({k: meta[k] for k in ("confirmed", "detected_by_quick_check", "check_lines", "tests_with_patch",
                                           "demo_unchanged_rc", "demo_patched_rc") if k in meta}, indent=1))


if __name__ == "__main__":
    main()
