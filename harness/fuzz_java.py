"""Directed stream for the Java translator model (coq/IR/PrintJava.v): random trees of the real
ast / types classes over java_types, with the declarations registered in a real Context under
the namespaces JavaTranslator computes (functions, lambdas, true_block / false_block), so that
the context-dependent branches are reached: nested functions (FunctionN variables, .apply,
vararg arrays), Main. prefixes and their suppression by shadowing and by instanceof patterns,
function references (Main:: / this::), blocks that are not function bodies (Function0 wrappers)
with every kind of last statement, global variables whose initialiser contains declarations,
super constructor calls with arguments (translated by a second JavaTranslator, white space
collapsed), arrays, casts of number literals, wildcards, primitive types, a top-level main.
NOT well-typed programs; the translator does not look at typing.  Everything is drawn from one
random.Random.  Trees the implementation rejects (exceptions) are counted by the caller.
"""


class JFuzz:
    def __init__(self, rng):
        from src.ir import ast, types as tp, java_types as jt, context as ctx
        self.ast, self.tp, self.jt, self.ctxmod = ast, tp, jt, ctx
        self.r = rng
        self.n = 0
        self.context = ctx.Context()
        self.classes = []            # (name, type parameters, class_type)
        self.globals_v = []          # names of global variables
        self.globals_f = []          # names of global functions
        self.words = ["x", "foo", "bar", "baz", "qux", "item", "count", "node", "value", "acc"]
        self.prims = [jt.IntegerType(primitive=True), jt.LongType(primitive=True), jt.ShortType(primitive=True),
                      jt.ByteType(primitive=True), jt.FloatType(primitive=True), jt.DoubleType(primitive=True),
                      jt.CharType(primitive=True), jt.BooleanType(primitive=True)]
        self.boxed = [jt.Object, jt.Void, jt.Number, jt.Integer, jt.Short, jt.Long, jt.Byte, jt.Float, jt.Double, jt.Char,
                      jt.String, jt.Boolean]

    # ------------------------------------------------------------------ names, types
    def name(self, p="v"):
        self.n += 1
        return "%s%s%d" % (p, self.r.choice(self.words), self.n)

    def ty(self, d=0):
        r, tp, jt = self.r, self.tp, self.jt
        c = r.random()
        if c < 0.3 or d > 2:
            return r.choice(self.boxed + [tp.TypeParameter("T"), tp.TypeParameter("U", tp.Invariant, jt.Number)])
        if c < 0.45:
            return r.choice(self.prims)
        if c < 0.6 and self.classes:
            nm, tps, _ = r.choice(self.classes)
            if tps:
                t = tp.ParameterizedType(tp.TypeConstructor(nm, tps), [self.targ(d + 1) for _ in tps])
                if r.random() < 0.4:
                    t.can_infer_type_args = True
                return t
            return tp.SimpleClassifier(nm)
        if c < 0.75:
            return jt.Array.new([self.elem(d + 1) if r.random() < 0.5 else r.choice(self.prims)])
        n = r.randint(0, 2)
        return jt.FunctionType(n).new([self.targ(d + 1) for _ in range(n + 1)])

    def targ(self, d):
        r, tp = self.r, self.tp
        c = r.random()
        if c < 0.12:
            return tp.WildCardType()
        if c < 0.25:
            return tp.WildCardType(self.ty(d), tp.Covariant)
        if c < 0.35:
            return tp.WildCardType(self.ty(d), tp.Contravariant)
        if c < 0.4:
            return tp.WildCardType(tp.WildCardType(self.ty(d), tp.Covariant), tp.Covariant)
        return self.ty(d)

    def elem(self, d):
        """element type of an array: printed with get_type_name directly, which raises on an unbounded wildcard"""
        t = self.targ(d)
        while t.is_wildcard() and t.get_bound_rec() is None:
            t = self.targ(d)
        return t

    def array_ty(self):
        r, jt = self.r, self.jt
        c = r.random()
        if c < 0.35:
            return jt.Array.new([r.choice(self.prims)])
        return jt.Array.new([self.elem(1)])

    # ------------------------------------------------------------------ scopes
    # sc: dict(ns=namespace tuple, vars=[visible variable names], funcs=[(name, nested, nparams, vararg)], cls=class name or None)
    def sub(self, sc, name):
        return dict(sc, ns=sc["ns"] + (name,), vars=list(sc["vars"]), funcs=list(sc["funcs"]))

    def some_var(self, sc):
        pool = sc["vars"] + self.globals_v
        if pool and self.r.random() < 0.85:
            return self.r.choice(pool)
        return self.name("u")

    # ------------------------------------------------------------------ statements
    def block(self, d, sc, func_block=None):
        r = self.r
        sc2 = dict(sc, vars=list(sc["vars"]), funcs=list(sc["funcs"]))
        stmts = [self.stmt(d + 1, sc2) for _ in range(r.randint(0, 3))]
        if stmts and isinstance(stmts[-1], self.ast.VariableDeclaration) and r.random() < 0.7:
            stmts.append(self.expr(d + 1, sc2))
        if stmts and func_block is not True and r.random() < 0.9:
            # a block that is not a function body is wrapped into a Function0 whose type argument is the type
            # hint of the last statement: mostly give it one the implementation can name
            stmts[-1] = self.typed_expr(d + 1, sc2)
        return self.ast.Block(stmts, is_func_block=r.random() < 0.5 if func_block is None else func_block)

    def body(self, d, sc):
        return self.block(d, sc, True) if self.r.random() < 0.6 else self.expr(d + 1, sc)

    def params(self, d, sc_inner):
        r, a = self.r, self.ast
        ps = []
        k = r.choice([0, 1, 1, 2, 2, 2, 3, 4, 5, 6])       # 4 and more: a nested function then needs a generated FunctionN interface
        for i in range(k):
            va = i == k - 1 and r.random() < 0.3
            pt = self.array_ty() if va and r.random() < 0.9 else self.ty()
            p = a.ParameterDeclaration(self.name("p"), pt, vararg=va,
                                       default=self.leaf(sc_inner) if r.random() < 0.1 else None)
            self.context.add_var(sc_inner["ns"], p.name, p)
            sc_inner["vars"].append(p.name)
            ps.append(p)
        return ps

    def tparams(self):
        r, tp = self.r, self.tp
        return [tp.TypeParameter(self.name("T").capitalize(), tp.Invariant,
                                 r.choice([self.ty(1), r.choice(self.prims)]) if r.random() < 0.4 else None)
                for _ in range(r.randint(0, 2))]

    def func(self, d, sc, method=False, name=None):
        r, a = self.r, self.ast
        name = name or self.name("f")
        inner = self.sub(sc, name)
        ps = self.params(d, inner)
        rt = r.choice([self.jt.Void, self.ty(), self.ty()])
        abstract = method and r.random() < 0.25
        nested = len(sc["ns"]) > 1 and not method
        f = a.FunctionDeclaration(name, ps, rt, None, a.FunctionDeclaration.CLASS_METHOD if method else a.FunctionDeclaration.FUNCTION,
                                  is_final=r.random() < 0.6, override=r.random() < 0.2,
                                  type_parameters=[] if nested and r.random() < 0.8 else self.tparams())
        self.context.add_func(sc["ns"], name, f)
        sc["funcs"].append((name, nested, len(ps), bool(ps and ps[-1].vararg)))
        if not abstract:
            inner["funcs"] = list(sc["funcs"])
            f.body = self.body(d, inner)
        if r.random() < 0.3:
            f.omit_type()
        if len(sc["ns"]) == 1:
            self.globals_f.append(name)
        return f

    def var(self, d, sc, name=None):
        r, a = self.r, self.ast
        t = self.ty()
        name = name or (r.choice(sc["vars"] + self.globals_v) if (sc["vars"] or self.globals_v) and r.random() < 0.08
                        else self.name("v"))
        e = self.expr(d + 1, sc)
        v = a.VariableDeclaration(name, e, is_final=r.random() < 0.5, var_type=t)
        if r.random() < 0.4:
            v.omit_type()
        self.context.add_var(sc["ns"], name, v)
        if len(sc["ns"]) == 1:
            self.globals_v.append(name)
        else:
            sc["vars"].append(name)
        return v

    def stmt(self, d, sc):
        c = self.r.random()
        if c < 0.25:
            return self.var(d, sc)
        if c < 0.37 and d < 4:
            return self.func(d, sc)
        return self.expr(d, sc)

    def lam(self, d, sc):
        r, a = self.r, self.ast
        name = "lambda_%d" % self.n
        self.n += 1
        inner = self.sub(sc, name)
        ps = []
        for _ in range(r.randint(0, 2)):
            p = a.ParameterDeclaration(self.name("p"), self.ty())
            self.context.add_var(inner["ns"], p.name, p)
            inner["vars"].append(p.name)
            ps.append(p)
        rt = r.choice([self.jt.Void, self.ty(), self.ty(), self.ty(), None if r.random() < 0.2 else self.ty()])
        sig = self.jt.FunctionType(len(ps)).new([p.param_type for p in ps] + [rt if rt is not None else self.jt.Object])
        lam = a.Lambda(name, ps, rt, None, sig)
        self.context.add_lambda(sc["ns"], name, lam)
        lam.body = self.body(d, inner)
        return lam

    def leaf(self, sc):
        r, a, jt = self.r, self.ast, self.jt
        c = r.randint(0, 8)
        if c == 0:
            return a.IntegerConstant(r.randint(-100, 100), r.choice([jt.Integer, jt.Long, jt.Short, jt.Byte, jt.Number, None,
                                                                    jt.LongType(primitive=True)]))
        if c == 1:
            return a.RealConstant(r.choice(["1.5", "-2.25", "0.0"]), r.choice([jt.Float, jt.Double, jt.Number, None]))
        if c == 2:
            return a.BooleanConstant(r.choice(["true", "false"]))
        if c == 3:
            return a.CharConstant(r.choice("abcXYZ019 "))
        if c == 4:
            return a.StringConstant(r.choice(self.words + ["two  words", " lead", "trail ", ""]))
        if c == 5:
            return a.BottomConstant(r.choice([self.ty(), self.ty(), None, self.tp.Nothing]))
        return a.Variable(self.some_var(sc))

    def typed_expr(self, d, sc):
        r, a = self.r, self.ast
        c = r.randint(0, 7)
        if c == 0 and (sc["vars"] or self.globals_v):
            return a.Variable(r.choice(sc["vars"] + self.globals_v))
        if c == 1:
            return a.New(self.ty(), self.args(d, sc))
        if c == 2:
            return a.EqualityExpr(self.expr(d + 1, sc), self.expr(d + 1, sc), r.choice(a.EqualityExpr.ALL_OPERATORS))
        if c == 3:
            return self.cond(d, sc)
        if c == 4:
            return self.lam(d, sc)
        if c == 5:
            n = r.randint(0, 2)
            return a.ArrayExpr(self.array_ty(), n, [self.expr(d + 1, sc) for _ in range(n)])
        if c == 6:
            return a.BottomConstant(self.ty())
        return r.choice([a.IntegerConstant(r.randint(-9, 9), r.choice([self.jt.Integer, self.jt.Long, self.jt.Number])),
                         a.RealConstant("2.5", self.jt.Double), a.BooleanConstant("true"), a.StringConstant("s"),
                         a.CharConstant("c")])

    def args(self, d, sc, lo=0, hi=2):
        return [self.expr(d + 1, sc) for _ in range(self.r.randint(lo, hi))]

    def cond(self, d, sc):
        r, a = self.r, self.ast
        c = r.random()
        if c < 0.55:
            # instanceof pattern on a variable (or, rarely, on another expression)
            lexpr = a.Variable(self.some_var(sc)) if r.random() < 0.9 else self.expr(d + 2, sc)
            cnd = a.Is(lexpr, self.ty(), r.random() < 0.4)
            tsc, fsc = self.sub(sc, "true_block"), self.sub(sc, "false_block")
        else:
            cnd = self.expr(d + 1, sc)
            tsc, fsc = sc, sc
        tb = self.block(d, tsc, False) if r.random() < 0.6 else self.expr(d + 1, tsc)
        fb = self.block(d, fsc, False) if r.random() < 0.6 else self.expr(d + 1, fsc)
        return a.Conditional(cnd, tb, fb, self.ty())

    def call(self, d, sc):
        r, a = self.r, self.ast
        c = r.random()
        if c < 0.35 and sc["funcs"]:
            name, nested, np, va = r.choice(sc["funcs"])
            n = np + (r.randint(-1, 2) if va else 0)
            cargs = [a.CallArgument(self.expr(d + 1, sc)) for _ in range(max(0, n))]
            return a.FunctionCall(name, cargs, None, [])
        if c < 0.5 and self.globals_f:
            return a.FunctionCall(r.choice(self.globals_f), [a.CallArgument(e) for e in self.args(d, sc)], None, [])
        if c < 0.62 and (sc["vars"] or self.globals_v):
            return a.FunctionCall(self.some_var(sc), [a.CallArgument(e) for e in self.args(d, sc)], None, [], is_ref_call=True)
        cargs = [a.CallArgument(e, self.name("n") if r.random() < 0.2 else None) for e in self.args(d, sc)]
        fc = a.FunctionCall(self.name("call"), cargs, self.expr(d + 1, sc) if r.random() < 0.6 else None,
                            [self.ty() for _ in range(r.randint(0, 2))], is_ref_call=r.random() < 0.1)
        fc.can_infer_type_args = r.random() < 0.4
        return fc

    def funcref(self, d, sc):
        r, a = self.r, self.ast
        sig = self.jt.FunctionType(1).new([self.ty(), self.ty()])
        c = r.random()
        if c < 0.4:
            return a.FunctionReference(self.name("ref"), self.expr(d + 1, sc), sig)
        pool = [f[0] for f in sc["funcs"]] + self.globals_f + sc.get("methods", [])
        return a.FunctionReference(r.choice(pool) if pool and r.random() < 0.85 else self.name("ref"), None, sig)

    def expr(self, d, sc):
        r, a = self.r, self.ast
        if d > 4 or r.random() < 0.25:
            return self.leaf(sc)
        c = r.randint(0, 17)
        if c == 0:
            n = r.randint(0, 2)
            return a.ArrayExpr(self.array_ty(), n, [self.expr(d + 1, sc) for _ in range(n)])
        if c == 1:
            return a.LogicalExpr(self.expr(d + 1, sc), self.expr(d + 1, sc), r.choice(a.LogicalExpr.ALL_OPERATORS))
        if c == 2:
            return a.EqualityExpr(self.expr(d + 1, sc), self.expr(d + 1, sc), r.choice(a.EqualityExpr.ALL_OPERATORS))
        if c == 3:
            return a.ComparisonExpr(self.expr(d + 1, sc), self.expr(d + 1, sc), r.choice(a.ComparisonExpr.ALL_OPERATORS))
        if c == 4:
            return a.ArithExpr(self.expr(d + 1, sc), self.expr(d + 1, sc), r.choice(a.ArithExpr.ALL_OPERATORS))
        if c in (5, 6):
            return self.cond(d, sc)
        if c == 7:
            return a.Is(a.Variable(self.some_var(sc)) if r.random() < 0.5 else self.expr(d + 1, sc), self.ty(), r.random() < 0.5) \
                if r.random() < 0.15 else self.cond(d, sc)
        if c == 8:
            return a.New(self.ty(), self.args(d, sc))
        if c == 9:
            return a.FieldAccess(self.expr(d + 1, sc), self.name("fld"))
        if c in (10, 11):
            return self.call(d, sc)
        if c == 12:
            return self.funcref(d, sc)
        if c == 13:
            return a.Assignment(self.some_var(sc), self.expr(d + 1, sc), self.expr(d + 1, sc) if r.random() < 0.4 else None)
        if c in (14, 15):
            return self.lam(d, sc)
        return self.block(d, sc)

    # ------------------------------------------------------------------ declarations
    def cls(self):
        r, a, tp = self.r, self.ast, self.tp
        name = self.name("C").capitalize()
        tps = self.tparams()
        ct = r.choice([0, 0, 1, 2])
        sc = dict(ns=("global", name), vars=[], funcs=[], cls=name, methods=[])
        supers = []
        for i in range(r.choice([0, 1, 1, 2])):
            c = r.random()
            if not self.classes and c < 0.95:
                continue
            if c < 0.8:
                nm, stps, sct = r.choice(self.classes)
                st = (tp.ParameterizedType(tp.TypeConstructor(nm, stps), [self.ty(1) for _ in stps]) if stps
                      else tp.SimpleClassifier(nm))
            elif c < 0.83:
                st = self.jt.Object
                sct = 0
            elif c < 0.97:
                continue
            else:
                st = tp.SimpleClassifier(self.name("Unknown").capitalize())
                sct = 0
            with_args = sct != 1 and r.random() < 0.7
            supers.append(a.SuperClassInstantiation(st, self.args(1, sc, 0, 3) if with_args else None))
        fields = []
        for _ in range(r.randint(0, 2)):
            f = a.FieldDeclaration(self.name("fl") if r.random() < 0.95 or not fields else fields[0].name, self.ty(),
                                   is_final=r.random() < 0.5, can_override=r.random() < 0.3, override=r.random() < 0.3)
            self.context.add_var(sc["ns"], f.name, f)
            sc["vars"].append(f.name)
            fields.append(f)
        mnames = [self.name("m") for _ in range(r.randint(0, 3))]
        sc["methods"] = list(mnames)
        funcs = [self.func(1, sc, True, name=m) for m in mnames]
        c = a.ClassDeclaration(name, supers, ct, fields, funcs, is_final=r.random() < 0.5, type_parameters=tps)
        self.context.add_class(("global",), name, c)
        self.classes.append((name, tps, ct))
        return c

    def program(self):
        a, r = self.ast, self.r
        p = a.Program(self.context, "java")
        top = dict(ns=("global",), vars=[], funcs=[], cls=None)
        for i in range(r.randint(2, 7)):
            c = r.random()
            if c < 0.4:
                self.cls()
            elif c < 0.75:
                self.func(0, top, name="main" if r.random() < 0.12 else None)
            else:
                self.var(0, top)
        return p
