"""C07 -- instantiating a generic class substitutes everywhere and mutates nothing.

Proof part: coq/Types/Properties_C07.v (algebraic laws of the substitution model
Types/Subst.v).  Tie: correspondence of TypeConstructor.new / substitute_type /
substitute_type_args / to_variance_free / supertypes / get_supertypes with the model on
histories of calls performed on SHARED type objects; before and after every call a deep
structural snapshot of every object created so far (constructors, arguments, earlier
results) is compared -- "mutates nothing" is a statement about the Python heap that the
pure model satisfies by construction, so it is carried by these snapshots.  Results are
also judged by an independent naive substitution on terms.
"""
import glob as globmod
import json
import os
import random
import re

import common as C
import tymodel as T


def snap(o, memo, depth=0):
    """Deep structural snapshot of a type object (independent of object identity)."""
    if o is None:
        return None
    key = id(o)
    if key in memo:
        return memo[key]
    if depth > 12:
        return ("...",)
    memo[key] = ("cycle",)
    cls = type(o).__name__
    parts = [cls, getattr(o, "name", None)]
    if hasattr(o, "variance") and o.variance is not None:
        parts.append(("var", o.variance.value))
    if hasattr(o, "bound"):
        parts.append(("bound", snap(o.bound, memo, depth + 1)))
    if hasattr(o, "type_args"):
        parts.append(("args", tuple(snap(a, memo, depth + 1) for a in o.type_args)))
    if hasattr(o, "type_parameters"):
        parts.append(("params", tuple(snap(a, memo, depth + 1) for a in o.type_parameters)))
    if hasattr(o, "t_constructor"):
        parts.append(("con", snap(o.t_constructor, memo, depth + 1)))
    sup = getattr(o, "supertypes", None)
    if sup is not None:
        parts.append(("supers", tuple(snap(s, memo, depth + 1) for s in list(sup))))
    r = tuple(parts)
    memo[key] = r
    return r


def snap_all(objs):
    return [snap(o, {}) for o in objs]


def novars(t):
    k = t[0]
    if k in ("V", "K"):
        return False
    if k == "A":
        return all(novars(a) for a in t[2])
    if k == "W":
        return t[2] is None or novars(t[2])
    return True


def ref_subst(m, t):
    """independent naive substitution (keys: (id, variance, bound-term))"""
    k = t[0]
    if k == "V":
        for kk, r in m:
            if kk == t:
                return r
        if t[3] is not None:
            return ("V", t[1], t[2], ref_subst(m, t[3]))
        return t
    if k == "A":
        return ("A", t[1], [ref_subst(m, a) for a in t[2]])
    if k == "W" and t[2] is not None:
        return ("W", t[1], ref_subst(m, t[2]))
    return t


def norm(t):
    """terms as comparable values (lists -> tuples)"""
    if t[0] == "A":
        return ("A", t[1], tuple(norm(a) for a in t[2]))
    if t[0] == "V":
        return ("V", t[1], t[2], None if t[3] is None else norm(t[3]))
    if t[0] == "W":
        return ("W", t[1], None if t[2] is None else norm(t[2]))
    return tuple(t)


def twin_table(rng, L, tab):
    """A look-alike of the table: the same class names, parameters and (mostly) direct supertypes, but ONE class that has
    subclasses gets other supertypes -- so that some class's direct supertypes read the same while its hierarchy above them
    differs.  Type objects built for the two tables in one process must not be confused (aliasing across a generation run)."""
    used = {}
    for c, (_, sups) in tab.items():
        for s_ in sups:
            if s_[0] in ("A", "C"):
                used.setdefault(s_[1], []).append(c)
    cands = [c for c in used if c in tab]
    if not cands:
        return None
    m = rng.choice(cands)
    params, sups = tab[m]
    others = [c for c in tab if c < m and c not in (m,) and not tab[c][0]]
    new = [s_ for s_ in sups if rng.random() < 0.3]
    if others and rng.random() < 0.8:
        new.append(("C", rng.choice(others)))
    gens1 = [c for c in tab if c < m and len(tab[c][0]) == 1 and tab[c][0][0][3] is None]
    if gens1 and params and rng.random() < 0.7:
        new.append(("A", rng.choice(gens1), [params[0] if params[0][2] == 0 else ("B", L.any_bid, False)]))
    if [repr(x) for x in new] == [repr(x) for x in sups]:
        new = []
        if [repr(x) for x in new] == [repr(x) for x in sups]:
            return None
    t2 = dict(tab)
    t2[m] = (params, new)
    return t2


def run_history(rng, L, tab, nops, directed=False):
    """Returns (ops for Coq, problems found by the independent judge / snapshots)."""
    b = T.Builder(L, tab)
    tp = L.tp
    problems = []
    ops = []
    pool = []                     # (term, object)
    scope = []
    gens = [c for c in tab if tab[c][0]]
    if gens:
        scope = list(tab[rng.choice(gens)][0])
    scope.append(("V", 77, 0, None))
    scope.append(("V", 78, 0, ("B", L.any_bid, False)))
    ground_pool = [t for t in L.builtin_terms(prims=False) if not L.info[t[1]]["bottom"]]

    def add(term):
        try:
            o = b.obj(term)
        except Exception:                   # noqa: BLE001
            return None
        pool.append((term, o))
        return o

    for _ in range(6):
        t = T.gen_type(rng, L, tab, 2, scope)
        if not T.nested_nothing(t) and t[0] != "N":
            add(t)
    watched = lambda: [o for _, o in pool] + list(b.cons.values())    # noqa: E731
    if directed:
        # every generic class instantiated with the SAME (shared, per-language) built-in argument objects, whatever the table
        gp = sorted(ground_pool)
        for c in gens:
            args = [gp[(3 * k + 1) % len(gp)] for k, _ in enumerate(tab[c][0])]
            try:
                res = b.cls(c).new([b.obj(a) for a in args])
            except Exception:       # noqa: BLE001
                continue
            rt = ("A", c, args)
            ops.append(("supers", rt, [T.reify(L, s_) for s_ in res.supertypes]))
            ops.append(("closure", rt, [T.reify(L, s_) for s_ in res.get_supertypes()]))
            pool.append((rt, res))
    for _ in range(nops):
        if not pool:
            break
        before_objs = watched()
        before = snap_all(before_objs)
        r = rng.random()
        term, o = rng.choice(pool)
        try:
            if r < 0.3 and gens:
                c = rng.choice(gens)
                args = [T.gen_arg(rng, L, tab, 1, scope, p) for p in tab[c][0]]
                if any(T.nested_nothing(a, False) for a in args):
                    continue
                if rng.random() < 0.5:
                    args = [T.gen_ground(rng, L, tab, ground_pool, 1) for _ in tab[c][0]]
                con = b.cls(c)
                res = con.new([b.obj(a) for a in args])
                rt = ("A", c, args)
                got = T.reify(L, res)
                if norm(got) != norm(rt):
                    problems.append(("new returned %s for %s" % (got, rt), rt))
                sup = [T.reify(L, s) for s in res.supertypes]
                ops.append(("supers", rt, sup))
                ops.append(("closure", rt, [T.reify(L, s) for s in res.get_supertypes()]))
                if all(novars(a) for a in args):
                    m = list(zip(tab[c][0], args))
                    exp = [ref_subst(m, s) for s in tab[c][1]]
                    if [norm(x) for x in sup] != [norm(x) for x in exp]:
                        problems.append(("supertypes of %s are %s, the declared supertypes with the parameters "
                                         "replaced are %s" % (rt, sup, exp), rt))
                    if any(not novars(x) for x in sup):
                        problems.append(("supertypes %s of %s still contain type variables" % (sup, rt), rt))
                pool.append((rt, res))
            elif r < 0.6:
                # substitute_type with a map over the variables in scope
                m = []
                for v in scope:
                    if rng.random() < 0.7:
                        rep = T.gen_ground(rng, L, tab, ground_pool, 1) if rng.random() < 0.7 else rng.choice(scope)
                        m.append((v, rep))
                if rng.random() < 0.1:
                    m = []
                pm = {b.obj(k): b.obj(v) for k, v in m}
                res = tp.substitute_type(o, pm)
                got = T.reify(L, res)
                ops.append(("subst", False, m, term, got))
                if res.is_parameterized():
                    ops.append(("supers", got, [T.reify(L, s) for s in res.supertypes]))
                if not m and not (res == o):
                    problems.append(("substitute_type(%s, {}) is not equal to its argument" % (term,), term))
                exp = ref_subst([(k, v) for k, v in m], term)
                if norm(got) != norm(exp):
                    problems.append(("substitute_type(%s, %s) = %s, every occurrence replaced gives %s" % (term, m, got, exp), term))
                if all(novars(v) for _, v in m) and {norm(k) for k, _ in m} >= {norm(v) for v in scope}:
                    if not novars(got) and novars_after(term, scope):
                        problems.append(("substituting ground types for all type variables of %s leaves %s" % (term, got), term))
                pool.append((got, res))
            elif r < 0.72 and o.is_parameterized():
                m = [(v, T.gen_ground(rng, L, tab, ground_pool, 1)) for v in scope if rng.random() < 0.7]
                pm = {b.obj(k): b.obj(v) for k, v in m}
                res = tp.substitute_type_args(o, pm)
                got = T.reify(L, res)
                ops.append(("subst", True, m, term, got))
                pool.append((got, res))
            elif r < 0.82 and o.is_parameterized():
                res = o.to_variance_free()
                got = T.reify(L, res)
                ops.append(("varfree", term, got))
                pool.append((got, res))
            elif r < 0.9:
                t2, o2 = rng.choice(pool)
                try:
                    o.is_subtype(o2)
                except Exception:           # noqa: BLE001
                    pass
                ops.append(("hastv", term, bool(o.has_type_variables())))
                if o.is_parameterized():
                    ops.append(("haswild", term, bool(o.has_wildcards())))
            else:
                ops.append(("closure", term, [T.reify(L, s) for s in o.get_supertypes()]))
                ops.append(("supers", term, [T.reify(L, s) for s in o.supertypes]))
        except NotImplementedError:
            continue
        after = snap_all(before_objs)
        for k, (x, y) in enumerate(zip(before, after)):
            if x != y:
                problems.append(("an existing type object (%s) was modified by the last call" % (before_objs[k],), term))
                break
    return ops, problems


def novars_after(term, scope):
    """every type variable of term is one of the scope variables (so a full map grounds it)"""
    sc = {norm(v) for v in scope}

    def go(t):
        if t[0] == "V":
            return norm(t) in sc
        if t[0] == "K":
            return False
        if t[0] == "A":
            return all(go(a) for a in t[2])
        if t[0] == "W":
            return t[2] is None or go(t[2])
        return True
    return go(term)


def coq_op(o):
    k = o[0]
    ct = T.cterm
    if k == "subst":
        _, cond, m, t, e = o
        return "OSubst %s %s %s %s" % (C.cbool(cond), C.clist(list(reversed(m)), lambda kv: "(%s, %s)" % (ct(kv[0]), ct(kv[1]))), ct(t), ct(e))
    if k == "supers":
        return "OSupers %s %s" % (ct(o[1]), C.clist(o[2], ct))
    if k == "closure":
        return "OClosure %s %s" % (ct(o[1]), C.clist(o[2], ct))
    if k == "varfree":
        return "OVarFree %s %s" % (ct(o[1]), ct(o[2]))
    if k == "hastv":
        return "OHasTv %s %s" % (ct(o[1]), C.cbool(o[2]))
    if k == "haswild":
        return "OHasWild %s %s" % (ct(o[1]), C.cbool(o[2]))
    raise ValueError(k)


def coq_file(groups):
    gs = []
    for lang, tab, ops in groups:
        gs.append("({| w_ct := %s ++ bclasses_%s; w_bt := bt_%s; w_array := array_%s |},\n [%s])" % (
            T.coq_ctable(tab), lang, lang, lang, ";\n  ".join(coq_op(o) for o in ops)))
    return (C.CASE_HEADER + "From Coq Require Import List Arith Bool.\nImport ListNotations.\n"
            "From Heph Require Import Types.Syntax Types.Subst Types.Subtype Types.Corr Types.Corr07 Generated.Builtins.\n"
            "Definition gs : list (world * list op07) := [\n%s\n].\nEval vm_compute in (groups07 0 gs).\n" % ";\n".join(gs))


def parse_pairs(s):
    body = s.split(" : ")[0].strip()
    if body in ("[]", "nil"):
        return []
    return [tuple(int(x) for x in m) for m in re.findall(r"\((\d+),\s*(\d+)\)", body)]


def run(tier, seed, replay=None):
    rep = C.Report("C07", tier, seed, "proof")
    C.setup_repo_import(seed)
    T.emit_generated()
    proof_ok = C.proof_part(rep, "Types/Properties_C07.v",
                            ["Generated/Builtins.vo", "Types/Syntax.vo", "Types/Subst.vo", "Types/Subtype.vo",
                             "Types/Corr.vo", "Types/Corr07.vo", "Types/SubstProofs.vo"],
                            ["Types", "Generated"])
    rng = random.Random(C.sub_seed(seed, "c07"))
    langs = {l: T.Lang(l) for l in T.LANGS}
    groups, allprob = [], []
    ntwin = [0]
    nh = 120 if tier == "quick" else 3000
    for i in range(nh):
        lang = T.LANGS[i % 4]
        L = langs[lang]
        tab = T.gen_table(rng, L, conforming=True)
        ops, problems = run_history(rng, L, tab, 25 if tier == "quick" else 60)
        groups.append((lang, tab, ops))
        allprob.append(problems)
        if i % 3 == 0:
            # twin histories: the table, then a look-alike of it, in the same process and on the same argument objects
            t2 = twin_table(rng, L, tab)
            if t2 is not None:
                for tb in (tab, t2):
                    ops, problems = run_history(rng, L, tb, 6, directed=True)
                    groups.append((lang, tb, ops))
                    allprob.append(problems)
                    ntwin[0] += 1
    chunk = 10
    files = [("c07_%d" % (k // chunk), coq_file(groups[k:k + chunk])) for k in range(0, len(groups), chunk)]
    C.clean_cases("c07_")
    res = C.run_case_files(files, timeout=1200)
    mism = []
    for k, (name, _) in enumerate(files):
        rc, out = res[name]
        if rc != 0:
            rep.violation("case-file", "case file %s did not evaluate: %s" % (name, out[-600:]),
                          dict(broken=name, log=out[-3000:]), no_input=True)
            continue
        for (g, i) in parse_pairs(C.parse_eval_outputs(out)[-1]):
            mism.append((k * chunk + g, i))
    C.clean_cases("c07_")
    nops = 0
    kinds = {}
    distinct = set()
    for lang, tab, ops in groups:
        for o in ops:
            nops += 1
            kinds[o[0]] = kinds.get(o[0], 0) + 1
            if o[0] in ("subst", "supers", "closure") and len(repr(o)) > 60:
                distinct.add(repr(o))
    spec_viol = 0
    bad = set()
    for gi, problems in enumerate(allprob):
        for what, term in problems:
            spec_viol += 1
            bad.add(gi)
            lang, tab, ops = groups[gi]
            rep.violation("spec", "%s: %s" % (lang, what),
                          dict(lang=lang, table={k: list(v) for k, v in tab.items()}, term=term, what=what))
    for (g, i) in mism:
        lang, tab, ops = groups[g]
        rep.violation("correspondence", "%s: model and implementation differ on %s" % (lang, ops[i][:4]),
                      dict(lang=lang, table={k: list(v) for k, v in tab.items()}, op=ops[i],
                           broken="correspondence Types.Subst vs src/ir/types.py"), no_input=(g not in bad))
    if not proof_ok and not rep.violations:
        rep.violation("proof", rep.proof_broken, dict(broken=rep.proof_broken), no_input=True)
    rep.add(evaluations=nops, histories=len(groups), distinct_nontrivial=len(distinct),
            rule="history = 25 (thorough 60) calls of new / substitute_type / substitute_type_args / to_variance_free / "
                 "is_subtype / get_supertypes on a shared pool of type objects over a random class table; after every call "
                 "all previously created objects are re-snapshotted (deep structural) and compared. distinct_nontrivial = distinct "
                 "substitution/supertype observations with a non-trivial term",
            twin_histories=ntwin[0],
            twin_rule="every third table is followed by two short histories, on the table and on a look-alike of it (one class with "
                      "subclasses gets other supertypes; names, parameters and the other classes unchanged), in which every generic class "
                      "is instantiated with the same shared built-in argument objects",
            traces_validated_against_impl=len(groups), model_impl_mismatches=len(mism), spec_violations=spec_viol,
            op_histogram=kinds,
            samples=[dict(lang=groups[0][0], ops=[list(map(str, o)) for o in groups[0][2][:5]])],
            trusted_base=C.TRUSTED_BASE_COMMON + [
                "mutation-freedom is observed through deep structural snapshots of the Python objects, not proved"])
    rep.assumptions = ["type objects are images of a class table"]
    return rep.finish()
