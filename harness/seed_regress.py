"""Regression of every seeded mutation against the CURRENT checks, in scratch copies of /verif and /repo
(so /repo itself is never touched):  python3 harness/seed_regress.py [scratch_dir] [ids...]
Writes seeded/REGRESSION.json in /verif (id -> caught / first violation / wall)."""
import glob
import json
import os
import shutil
import subprocess as sp
import sys
import time

V = os.path.dirname(os.path.dirname(os.path.abspath(__file__)))


def sh(cmd, **kw):
    r = sp.run(cmd, shell=True, stdout=sp.PIPE, stderr=sp.STDOUT, text=True, **kw)
    return r.returncode, r.stdout


def main():
    scratch = sys.argv[1] if len(sys.argv) > 1 else "/tmp/seedreg"
    only = set(sys.argv[2:])
    shutil.rmtree(scratch, ignore_errors=True)
    os.makedirs(scratch)
    rv, rr = os.path.join(scratch, "verif"), os.path.join(scratch, "repo")
    assert sh("rsync -a --exclude replays --exclude .git %s/ %s/" % (V, rv))[0] == 0
    assert sh("git clone -q /repo %s" % rr)[0] == 0
    out = {}
    outp = os.path.join(V, "seeded", "REGRESSION.json")
    if only and os.path.exists(outp):
        out = json.load(open(outp))
    for d in sorted(glob.glob(os.path.join(V, "seeded", "C*-*"))):
        sid = os.path.basename(d)
        if only and sid not in only:
            continue
        pid = sid.split("-")[0]
        patch = os.path.join(d, "patch.diff")
        if not os.path.exists(patch):
            continue
        rc, o = sh("git -C %s apply %s" % (rr, patch))
        if rc != 0:
            out[sid] = dict(applies=False, note=o[-300:])
            continue
        t0 = time.time()
        rc, o = sh("VERIF_REPO=%s %s/check %s --tier quick" % (rr, rv, pid), timeout=3600)
        sh("git -C %s checkout -- ." % rr)
        viol = [l.strip() for l in o.splitlines() if l.strip().startswith("violation:")]
        keep = {k: v for k, v in (out.get(sid) or {}).items() if k == "caught_by_other"}
        out[sid] = dict(keep, applies=True, caught=(rc == 1), rc=rc, wall_s=round(time.time() - t0, 1),
                        first=(viol[0][:240] if viol else ""), head=sh("git -C /repo rev-parse --short HEAD")[1].strip())
        print(sid, out[sid]["caught"], out[sid]["wall_s"], flush=True)
        json.dump(out, open(outp, "w"), indent=1, sort_keys=True)
    shutil.rmtree(scratch, ignore_errors=True)
    print("caught %d of %d" % (sum(1 for v in out.values() if v.get("caught")), len(out)))


if __name__ == "__main__":
    main()
