#!/bin/bash
# run every registered quick (or $1) check sequentially on the current tree; summary on stdout
cd /verif
tier=${1:-quick}
for c in $(python3 -c "import json;print(' '.join(x['property_id'] for x in json.load(open('MANIFEST.json'))['checks']))"); do
  out=$(./check $c --tier $tier 2>&1); rc=$?
  echo "$c rc=$rc $(echo "$out" | grep -c '^KNOWN-FINDING') known; $(echo "$out" | grep -v '^KNOWN' | tail -n 1 | cut -c1-200)"
done
